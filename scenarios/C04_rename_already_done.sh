#!/bin/sh
# C04 (replay for the Engine-B VC on ModifiedFiles::rollback): a git rename patch old -> new pushed onto a tree in which the
# rename has already happened (old is gone, new exists).  rapidquilt accepts it with the new name as the file it works on; the
# undo (for the backup with --backup always, or after a later file patch of the same patch fails) has to put the content back
# where it was taken from.  Expected: exit 0 / 1 as appropriate, never a panic, new.txt untouched, no old.txt.
# usage: <script> <rapidquilt binary>
BIN=${1:-rapidquilt}
rc=0
for T in 1 2; do
  # (a) successful push with --backup always: the undo runs to produce the backup
  W=$(mktemp -d); mkdir -p $W/patches
  printf 'a\nb\nc\n' > $W/new.txt
  printf 'mv.patch\n' > $W/series
  printf 'diff --git a/old.txt b/new.txt\nsimilarity index 100%%\nrename from old.txt\nrename to new.txt\n' > $W/patches/mv.patch
  $BIN push -d $W -a --threads $T --backup always >/dev/null 2>&1; st=$?
  [ "$st" = 0 ] || { echo "violation: (a) threads=$T exit $st (expected 0)"; rc=1; }
  [ "$(cat $W/new.txt)" = "$(printf 'a\nb\nc')" ] && [ ! -e $W/old.txt ] || { echo "violation: (a) threads=$T tree changed"; rc=1; }
  rm -rf $W
  # (b) a later file patch of the same patch fails: everything is rolled back
  W=$(mktemp -d); mkdir -p $W/patches
  printf 'a\nb\nc\n' > $W/new.txt
  printf 'one\n2\nthree\n' > $W/other.txt
  printf 'mv.patch\n' > $W/series
  printf 'diff --git a/old.txt b/new.txt\nsimilarity index 100%%\nrename from old.txt\nrename to new.txt\ndiff --git a/other.txt b/other.txt\n--- a/other.txt\n+++ b/other.txt\n@@ -1,3 +1,3 @@\n one\n-two\n+TWO\n three\n' > $W/patches/mv.patch
  $BIN push -d $W -a --threads $T --backup never >/dev/null 2>&1; st=$?
  [ "$st" = 1 ] || { echo "violation: (b) threads=$T exit $st (expected 1)"; rc=1; }
  [ "$(cat $W/new.txt)" = "$(printf 'a\nb\nc')" ] && [ ! -e $W/old.txt ] || { echo "violation: (b) threads=$T tree changed after the refused patch"; rc=1; }
  rm -rf $W
  # (c) the old name is known as deleted (an earlier patch of the run removed it and created the new one)
  W=$(mktemp -d); mkdir -p $W/patches
  printf 'a\nb\nc\n' > $W/old.txt
  printf 'one\n2\nthree\n' > $W/other.txt
  printf 'p1.patch\nmv.patch\n' > $W/series
  printf -- '--- a/old.txt\n+++ /dev/null\n@@ -1,3 +0,0 @@\n-a\n-b\n-c\n--- /dev/null\n+++ b/new.txt\n@@ -0,0 +1,3 @@\n+a\n+b\n+c\n' > $W/patches/p1.patch
  printf 'diff --git a/old.txt b/new.txt\nsimilarity index 100%%\nrename from old.txt\nrename to new.txt\ndiff --git a/other.txt b/other.txt\n--- a/other.txt\n+++ b/other.txt\n@@ -1,3 +1,3 @@\n one\n-two\n+TWO\n three\n' > $W/patches/mv.patch
  $BIN push -d $W -a --threads $T --backup never >/dev/null 2>&1; st=$?
  [ "$st" = 1 ] || { echo "violation: (c) threads=$T exit $st (expected 1)"; rc=1; }
  [ -f $W/new.txt ] && [ "$(cat $W/new.txt)" = "$(printf 'a\nb\nc')" ] && [ ! -e $W/old.txt ] || { echo "violation: (c) threads=$T tree is not the result of p1"; rc=1; }
  rm -rf $W
done
exit $rc
