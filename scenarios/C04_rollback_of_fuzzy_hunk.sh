#!/bin/sh
# C04 (replay for the Engine-B VC on apply_modify's rollback branch): a hunk that only applies with fuzz is rolled back
# (a) because another file patch of the same patch is rejected, (b) to produce the backup with --backup always.
# Expected: (a) exit 1, both files exactly as before; (b) exit 0, .pc/<patch>/a.txt equals the previous content.  Never a panic.
# usage: <script> <rapidquilt binary>
BIN=${1:-rapidquilt}
rc=0
mk() {
  mkdir -p $1/patches
  printf 'one\ntwo\nthree\nfour\nfive\nsix\nseven\n' > $1/a.txt
  printf 'x\ny\nz\n' > $1/b.txt
  # first context line differs from the file (ONE vs one): applies with fuzz 1 only
  printf -- '--- a/a.txt\n+++ b/a.txt\n@@ -1,7 +1,7 @@\n ONE\n two\n three\n-four\n+FOUR\n five\n six\n seven\n' > $1/patches/fuzzy.patch
}
for T in 1 2; do
  W=$(mktemp -d); mk $W
  printf -- '--- a/b.txt\n+++ b/b.txt\n@@ -1,3 +1,3 @@\n x\n-NOT THERE\n+Y\n z\n' >> $W/patches/fuzzy.patch
  printf 'fuzzy.patch\n' > $W/series
  cp $W/a.txt $W/a.before; cp $W/b.txt $W/b.before
  $BIN push -d $W -a --threads $T --fuzz 2 --backup never >/dev/null 2>&1; st=$?
  [ "$st" = 1 ] || { echo "violation: (a) threads=$T exit $st (expected 1)"; rc=1; }
  cmp -s $W/a.txt $W/a.before && cmp -s $W/b.txt $W/b.before || { echo "violation: (a) threads=$T files not restored after the refused patch"; rc=1; }
  rm -rf $W
  W=$(mktemp -d); mk $W
  printf 'fuzzy.patch\n' > $W/series
  cp $W/a.txt $W/a.before
  $BIN push -d $W -a --threads $T --fuzz 2 --backup always >/dev/null 2>&1; st=$?
  [ "$st" = 0 ] || { echo "violation: (b) threads=$T exit $st (expected 0)"; rc=1; }
  cmp -s $W/.pc/fuzzy.patch/a.txt $W/a.before || { echo "violation: (b) threads=$T backup is not the previous content"; rc=1; }
  rm -rf $W
done
exit $rc
