#!/bin/sh
# C11 (replay for the Engine-B VC on build_filepatch): a git "rename from / rename to" file patch whose ---/+++ lines name
# /dev/null on one side (or are missing).  The consumers of a FilePatch with is_rename() unwrap both names, so such a patch has
# to be refused by the parser; whatever happens, the run must end with exit 0 or 1, never with a panic (101) or a signal.
# usage: <script> <rapidquilt binary>
BIN=${1:-rapidquilt}
i=0
for BODY in \
  'diff --git a/f.txt b/g.txt\nrename from f.txt\nrename to g.txt\n--- a/f.txt\n+++ /dev/null\n@@ -1 +0,0 @@\n-a\n' \
  'diff --git a/f.txt b/g.txt\nrename from f.txt\nrename to g.txt\n--- /dev/null\n+++ b/g.txt\n@@ -0,0 +1 @@\n+a\n' \
  'diff --git a/f.txt b/g.txt\nsimilarity index 100%%\nrename from f.txt\nrename to g.txt\n--- a/f.txt\n+++ /dev/null\n@@ -1 +0,0 @@\n-a\n' ; do
for T in 1 2; do
W=$(mktemp -d)
mkdir -p $W/patches
printf 'a\n' > $W/f.txt
printf 'p1.patch\n' > $W/series
printf -- "$BODY" > $W/patches/p1.patch
$BIN push -d $W --threads $T >/dev/null 2>&1
rc=$?
rm -rf $W
if [ "$rc" != 0 ] && [ "$rc" != 1 ]; then echo "violation: rename patch variant $i threads=$T -> exit $rc"; exit 1; fi
done
i=$((i+1))
done
exit 0
