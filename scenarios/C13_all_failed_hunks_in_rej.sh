#!/bin/sh
# C13 (replay for the Engine-B VC "every hunk is tried"): a file patch with three hunks of which the first and the third cannot
# apply.  The reject file has to hold exactly those two hunks, in order (the second one applied and is not in it).
# usage: <script> <rapidquilt binary>
BIN=${1:-rapidquilt}
rc=0
for T in 1 2; do
  W=$(mktemp -d); mkdir -p $W/patches
  i=1; : > $W/a.txt; while [ $i -le 30 ]; do echo "line $i" >> $W/a.txt; i=$((i+1)); done
  printf 'bad.patch\n' > $W/series
  {
    printf -- '--- a/a.txt\n+++ b/a.txt\n'
    printf -- '@@ -2,3 +2,3 @@\n line 2\n-line THREE\n+LINE 3\n line 4\n'
    printf -- '@@ -14,3 +14,3 @@\n line 14\n-line 15\n+LINE 15\n line 16\n'
    printf -- '@@ -26,3 +26,3 @@\n line 26\n-line TWENTYSEVEN\n+LINE 27\n line 28\n'
  } > $W/patches/bad.patch
  $BIN push -d $W -a --threads $T >/dev/null 2>&1; st=$?
  [ "$st" = 1 ] || { echo "violation: threads=$T exit $st (expected 1)"; rc=1; }
  if [ ! -f $W/a.txt.rej ]; then echo "violation: threads=$T no reject file"; rc=1
  else
    n=$(grep -c '^@@ ' $W/a.txt.rej)
    [ "$n" = 2 ] || { echo "violation: threads=$T reject file holds $n hunk(s), 2 failed"; rc=1; }
    grep -q '^-line THREE$' $W/a.txt.rej && grep -q '^-line TWENTYSEVEN$' $W/a.txt.rej || { echo "violation: threads=$T a failed hunk is missing from the reject file"; rc=1; }
    grep -q '^-line 15$' $W/a.txt.rej && { echo "violation: threads=$T the applied hunk is in the reject file"; rc=1; }
  fi
  rm -rf $W
done
exit $rc
