#!/bin/sh
# C07 (replay for the Engine-B VC on the scheduling loop of parallel::apply_patches): series in which file names are related
# through renames / differing ---/+++ names in several orders, pushed with 2..4 workers; the outcome (exit status, tree,
# applied-patches) must equal the single-threaded one.
# usage: <script> <rapidquilt binary>
BIN=${1:-rapidquilt}
mk() { # $1 = dir
  mkdir -p $1/patches
  printf 'l1\nl2\nl3\n' > $1/drv.c
  printf 'o1\no2\n' > $1/other.c
  printf 'x1\nx2\n' > $1/x.txt
  printf -- '--- a/drv.c\n+++ b/drv.c\n@@ -1,3 +1,3 @@\n-l1\n+L1\n l2\n l3\n' > $1/patches/p1.patch
  printf -- '--- a/drv.c\n+++ b/drv.c\n@@ -1,3 +1,3 @@\n L1\n-l2\n+L2\n l3\n' > $1/patches/p2.patch
  printf 'diff --git a/drv.c b/core.c\nsimilarity index 100%%\nrename from drv.c\nrename to core.c\n' > $1/patches/p3.patch
  printf -- '--- a/core.c\n+++ b/core.c\n@@ -1,3 +1,3 @@\n L1\n L2\n-l3\n+L3\n' > $1/patches/p4.patch
  printf -- '--- a/other.c\n+++ b/other.c\n@@ -1,2 +1,2 @@\n-o1\n+O1\n o2\n' > $1/patches/p5.patch
  printf -- '--- a/x.txt.orig\n+++ b/x.txt\n@@ -1,2 +1,2 @@\n-x1\n+X1\n x2\n' > $1/patches/p6.patch
  printf -- '--- a/x.txt\n+++ b/x.txt\n@@ -1,2 +1,2 @@\n X1\n-x2\n+X2\n' > $1/patches/p7.patch
  printf 'diff --git a/core.c b/final.c\nsimilarity index 100%%\nrename from core.c\nrename to final.c\n' > $1/patches/p8.patch
  printf -- '--- a/final.c\n+++ b/final.c\n@@ -1,3 +1,4 @@\n L1\n L2\n L3\n+L4\n' > $1/patches/p9.patch
  printf 'p1.patch\np2.patch\np3.patch\np4.patch\np5.patch\np6.patch\np7.patch\np8.patch\np9.patch\n' > $1/series
}
snap() { ( cd $1 && find . -type f ! -path './patches/*' ! -name series | LC_ALL=C sort | while read f; do echo "== $f"; cat "$f"; done ) }
R=$(mktemp -d); mk $R
$BIN push -d $R -a --threads 1 --backup never >/dev/null 2>&1; rc1=$?
snap $R > $R.snap
rc=0
for T in 2 3 4; do
  W=$(mktemp -d); mk $W
  $BIN push -d $W -a --threads $T --backup never >/dev/null 2>&1; rcT=$?
  snap $W > $W.snap
  if [ "$rcT" != "$rc1" ] || ! cmp -s $R.snap $W.snap; then
    echo "violation: threads=$T exit $rcT (single-threaded: $rc1); tree differs: $(diff $R.snap $W.snap | head -5 | tr '\n' '|')"; rc=1
  fi
  rm -rf $W $W.snap
done
[ "$rc1" = 0 ] || { echo "violation: the single-threaded reference run failed (exit $rc1)"; rc=1; }
rm -rf $R $R.snap
exit $rc
