#!/bin/sh
# C13 (replay for the VC on make_rej_filename): rejected files in sub-directories; each reject file sits next to its file.
# usage: <script> <rapidquilt binary>
BIN=${1:-rapidquilt}
rc=0
for T in 1 2; do
  W=$(mktemp -d); mkdir -p $W/patches $W/sub/dir $W/other
  printf 'a\nb\nc\n' > $W/top.txt; printf 'a\nb\nc\n' > $W/sub/dir/deep.txt; printf 'a\nb\nc\n' > $W/other/Makefile
  printf 'bad.patch\n' > $W/series
  : > $W/patches/bad.patch
  for f in top.txt sub/dir/deep.txt other/Makefile; do
    printf -- "--- a/$f\n+++ b/$f\n@@ -1,3 +1,3 @@\n a\n-NOT THERE\n+B\n c\n" >> $W/patches/bad.patch
  done
  $BIN push -d $W -a --threads $T >/dev/null 2>&1
  got=$(cd $W && find . -name '*.rej' | LC_ALL=C sort | tr '\n' ' ')
  want="./other/Makefile.rej ./sub/dir/deep.txt.rej ./top.txt.rej "
  [ "$got" = "$want" ] || { echo "violation: threads=$T reject files are [$got], expected [$want]"; rc=1; }
  rm -rf $W
done
exit $rc
