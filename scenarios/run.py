#!/usr/bin/env python3
"""Scenario replays through the real binary: generated quilt workspaces with an oracle per property.

  run.py <PID> <rapidquilt binary>     exits 0 if the property held on every generated workspace, 1 otherwise

Used to confirm (or refute) candidates of the MIR-level VCs before they are reported.  The generator knows every
file version, so expected trees are known by construction (no second tool is consulted).
"""
import difflib
import hashlib
import os
import shutil
import stat
import subprocess
import sys
import tempfile


def udiff(a, b, old, new, n=3):
    al, bl = a.splitlines(True), b.splitlines(True)
    out = "".join(difflib.unified_diff(al, bl, old, new, n=n))
    # difflib does not emit the no-newline marker
    fixed = []
    for line in out.splitlines(True):
        if not line.endswith("\n"):
            line += "\n\\ No newline at end of file\n"
        fixed.append(line)
    return "".join(fixed)


def side(prefix, content):
    out = ""
    for l in content.splitlines(True):
        out += prefix + l
        if not l.endswith("\n"):
            out += "\n\\ No newline at end of file\n"
    return out


class Series:
    """versions[i] = {path: (bytes-as-str, mode)} after i patches; patches[i] = (name, text)."""

    def __init__(self):
        self.versions = [{}]
        self.patches = []
        self.touched = []      # per patch: list of (path, kind)

    def base(self, files):
        self.versions[0] = dict((k, (v, 0o644)) for k, v in files.items())

    def add_patch(self, name, ops, fail_file=None):
        cur = dict(self.versions[-1])
        text = ""
        touched = []
        for op in ops:
            kind = op[0]
            if kind == "modify":
                _, path, new = op
                old = cur[path][0]
                d = udiff(old, new, "a/" + path, "b/" + path)
                if fail_file == path:
                    d = d.replace("\n " , "\n XX", 1) if "\n " in d else d.replace("\n-", "\n-XX", 1)
                else:
                    cur[path] = (new, cur[path][1])
                text += d
                touched.append((path, "modify"))
            elif kind == "create":
                _, path, new = op
                text += "--- /dev/null\n+++ b/%s\n@@ -0,0 +1,%d @@\n%s" % (path, len(new.splitlines()), side("+", new))
                cur[path] = (new, 0o644)
                touched.append((path, "create"))
            elif kind == "delete":
                _, path = op
                old = cur[path][0]
                text += "--- a/%s\n+++ /dev/null\n@@ -1,%d +0,0 @@\n%s" % (path, len(old.splitlines()), side("-", old))
                del cur[path]
                touched.append((path, "delete"))
            elif kind == "rename":
                _, path, newpath, new = op
                old = cur[path][0]
                text += "diff --git a/%s b/%s\nrename from %s\nrename to %s\n" % (path, newpath, path, newpath)
                if new != old:
                    text += udiff(old, new, "a/" + path, "b/" + newpath)
                cur[newpath] = (new, cur[path][1])
                del cur[path]
                touched.append((path, "rename-from"))
                touched.append((newpath, "rename-to"))
            elif kind == "chmod":
                _, path, mode = op
                text += "diff --git a/%s b/%s\nold mode 100%o\nnew mode 100%o\n" % (path, path, cur[path][1], mode)
                cur[path] = (cur[path][0], mode)
                touched.append((path, "chmod"))
        self.patches.append((name, text))
        self.touched.append(touched)
        if fail_file is None:
            self.versions.append(cur)
        else:
            self.fail_at = len(self.patches) - 1

    def materialize(self, root, series_lines=None):
        os.makedirs(os.path.join(root, "patches"))
        for p, (c, m) in self.versions[0].items():
            fp = os.path.join(root, p)
            os.makedirs(os.path.dirname(fp), exist_ok=True)
            with open(fp, "w") as f:
                f.write(c)
            os.chmod(fp, m)
        for n, t in self.patches:
            with open(os.path.join(root, "patches", n), "w") as f:
                f.write(t)
        with open(os.path.join(root, "series"), "w") as f:
            f.write("".join(l + "\n" for l in (series_lines or [n for n, _ in self.patches])))


def tree(root):
    out = {}
    for d, dirs, files in os.walk(root):
        rel = os.path.relpath(d, root)
        if rel.split(os.sep)[0] in (".pc", "patches"):
            continue
        for f in files:
            p = os.path.normpath(os.path.join(rel, f))
            if p in ("series",) or p.endswith(".rej"):
                continue
            fp = os.path.join(d, f)
            out[p] = (open(fp).read(), stat.S_IMODE(os.lstat(fp).st_mode))
    return out


def full_snapshot(root):
    out = {}
    for d, dirs, files in os.walk(root):
        for f in dirs + files:
            fp = os.path.join(d, f)
            st = os.lstat(fp)
            h = hashlib.sha1(open(fp, "rb").read()).hexdigest() if os.path.isfile(fp) else "dir"
            out[os.path.relpath(fp, root)] = (h, st.st_mode, st.st_ino, st.st_mtime_ns)
    return out


def push(binary, root, args):
    p = subprocess.run([binary, "push", "-d", root] + args, capture_output=True, text=True, timeout=120)
    return p.returncode, p.stdout + p.stderr


def sample_series(failing):
    s = Series()
    s.base({"a.txt": "".join("line %d\n" % i for i in range(1, 13)), "d/b.txt": "one\ntwo\nthree\n", "c.txt": "x\ny\nz", "r.txt": "r1\nr2\nr3\nr4\n"})
    s.add_patch("p1.patch", [("modify", "a.txt", "".join("line %d%s\n" % (i, " changed" if i in (3, 10) else "") for i in range(1, 13))),
                             ("create", "n/new.txt", "fresh\nfile\n")])
    s.add_patch("p2.patch", [("modify", "d/b.txt", "one\ntwo and a half\nthree\nfour\n"), ("delete", "c.txt"), ("rename", "r.txt", "r2.txt", "r1\nr2 moved\nr3\nr4\n"),
                             ("chmod", "a.txt", 0o755)])
    if failing:
        s.add_patch("p3.patch", [("modify", "a.txt", "".join("line %d%s\n" % (i, " again" if i == 6 else (" changed" if i in (3, 10) else "")) for i in range(1, 13))),
                                 ("chmod", "r2.txt", 0o600),
                                 ("modify", "n/new.txt", "fresh\nfile\nmore\n"),
                                 ("modify", "d/b.txt", "one\ntwo and a half\nthree\nFOUR\n")], fail_file=failing if isinstance(failing, str) else "d/b.txt")
    else:
        s.add_patch("p3.patch", [("modify", "n/new.txt", "fresh\nfile\nmore\n")])
    if not failing:
        # one patch with two entries for the same file, and a file created in a new directory and changed again
        v1 = "".join("line %d%s\n" % (i, " changed" if i in (3, 10) else (" twice" if i == 1 else "")) for i in range(1, 13))
        v2 = "".join("line %d%s\n" % (i, " changed" if i in (3, 10) else (" twice" if i in (1, 12) else "")) for i in range(1, 13))
        s.add_patch("p3b.patch", [("modify", "a.txt", v1), ("modify", "a.txt", v2), ("create", "deep/er/x.txt", "x\n")])
        s.add_patch("p4.patch", [("modify", "a.txt", "changed everything\n"), ("modify", "deep/er/x.txt", "x\ny\n")])
    return s


def many_rejects_series(nfiles=9):
    s = Series()
    base = {}
    for i in range(nfiles):
        base["m%d.txt" % i] = "alpha\nbeta\ngamma\n"
    base["ok.txt"] = "one\n"
    s.base(base)
    s.add_patch("p1.patch", [("modify", "ok.txt", "one\ntwo\n")])
    # every m*.txt fails (context corrupted), ok.txt applies
    text = ""
    cur = dict(s.versions[-1])
    for i in range(nfiles):
        d = udiff(cur["m%d.txt" % i][0], "alpha\nBETA\ngamma\n", "a/m%d.txt" % i, "b/m%d.txt" % i).replace("\n alpha", "\n ALPHA?", 1)
        text += d
    text += udiff(cur["ok.txt"][0], "one\ntwo\nthree\n", "a/ok.txt", "b/ok.txt")
    s.patches.append(("p2.patch", text))
    s.touched.append([("m%d.txt" % i, "modify") for i in range(nfiles)] + [("ok.txt", "modify")])
    s.fail_at = 1
    return s, ["m%d.txt.rej" % i for i in range(nfiles)]


def fail(msg):
    print("violation: " + msg)
    return 1


def scen_c05(binary):
    rc_all = 0
    for failing in (False, True, "n/new.txt"):
        for threads in ("1", "2", "4"):
            for backup in ("never", "always", "onfail"):
                s = sample_series(failing)
                root = tempfile.mkdtemp()
                try:
                    s.materialize(root)
                    rc, out = push(binary, root, ["-a", "--threads", threads, "--backup", backup])
                    k = len(s.versions) - 1
                    want_rc = 1 if failing else 0
                    got = tree(root)
                    ap = os.path.join(root, ".pc", "applied-patches")
                    names = open(ap).read().split() if os.path.exists(ap) else []
                    tag = "failing=%s threads=%s backup=%s" % (failing, threads, backup)
                    if rc != want_rc:
                        rc_all |= fail("%s: exit %d, expected %d\n%s" % (tag, rc, want_rc, out[-300:]))
                    if got != s.versions[k]:
                        diff = [p for p in set(got) | set(s.versions[k]) if got.get(p) != s.versions[k].get(p)]
                        rc_all |= fail("%s: tree differs from the first %d patches applied: %s" % (tag, k, diff))
                    if names != [n for n, _ in s.patches[:k]]:
                        rc_all |= fail("%s: applied-patches = %s" % (tag, names))
                    rejs = sorted(os.path.relpath(os.path.join(d, f), root) for d, _, fs in os.walk(root) for f in fs if f.endswith(".rej"))
                    # a reject for a file whose directory does not exist on disk is skipped (as quilt does)
                    want_rej = [] if not failing else (["d/b.txt.rej"] if failing is True else [])
                    if rejs != want_rej:
                        rc_all |= fail("%s: reject files %s, expected %s" % (tag, rejs, want_rej))
                finally:
                    shutil.rmtree(root, ignore_errors=True)
    # many failing files in one patch: every one gets its reject, whatever the thread count
    for threads in ("1", "2", "3", "4"):
        s, want = many_rejects_series()
        root = tempfile.mkdtemp()
        try:
            s.materialize(root)
            rc, out = push(binary, root, ["-a", "--threads", threads, "--backup", "never"])
            rejs = sorted(os.path.relpath(os.path.join(d, f), root) for d, _, fs in os.walk(root) for f in fs if f.endswith(".rej"))
            if rc != 1 or rejs != sorted(want) or tree(root) != s.versions[1]:
                rc_all |= fail("threads=%s many failing files: exit %d, rejects %s" % (threads, rc, rejs))
        finally:
            shutil.rmtree(root, ignore_errors=True)
    return rc_all


def scen_c10(binary):
    rc_all = 0
    for failing in (False, True):
        for threads in ("1", "2"):
            for backup in ("always", "onfail", "never"):
                s = sample_series(failing)
                root, root2 = tempfile.mkdtemp(), tempfile.mkdtemp()
                try:
                    s.materialize(root)
                    s.materialize(root2)
                    before = full_snapshot(root)
                    rc, out = push(binary, root, ["-a", "--dry-run", "--threads", threads, "--backup", backup])
                    after = full_snapshot(root)
                    rc2, out2 = push(binary, root2, ["-a", "--threads", threads, "--backup", backup])
                    tag = "failing=%s threads=%s backup=%s" % (failing, threads, backup)
                    if before != after:
                        ch = [p for p in set(before) | set(after) if before.get(p) != after.get(p)]
                        rc_all |= fail("%s: --dry-run changed %s" % (tag, ch[:5]))
                    if rc != rc2:
                        rc_all |= fail("%s: --dry-run exit %d, real run exit %d" % (tag, rc, rc2))
                finally:
                    shutil.rmtree(root, ignore_errors=True)
                    shutil.rmtree(root2, ignore_errors=True)
    # after an earlier real push
    s = sample_series(False)
    root = tempfile.mkdtemp()
    try:
        s.materialize(root)
        push(binary, root, ["1", "--threads", "1"])
        before = full_snapshot(root)
        rc, out = push(binary, root, ["-a", "--dry-run", "--threads", "1"])
        if full_snapshot(root) != before:
            rc_all |= fail("--dry-run after a real push changed the tree")
        if rc != 0:
            rc_all |= fail("--dry-run after a real push exits %d although the rest applies" % rc)
    finally:
        shutil.rmtree(root, ignore_errors=True)
    return rc_all


def scen_c08(binary):
    rc_all = 0
    for failing in (False, True):
        for threads in ("1", "2"):
            for count in ("all", "0", "1", "2"):
                s = sample_series(failing)
                root = tempfile.mkdtemp()
                try:
                    s.materialize(root)
                    rc, out = push(binary, root, ["-a", "--threads", threads, "--backup", "always", "--backup-count", count])
                    k = len(s.versions) - 1
                    n = k if count == "all" else min(int(count), k)
                    tag = "failing=%s threads=%s count=%s" % (failing, threads, count)
                    for i in range(k):
                        name = s.patches[i][0]
                        pdir = os.path.join(root, ".pc", name)
                        in_window = i >= k - n
                        if not in_window:
                            if os.path.isdir(pdir):
                                rc_all |= fail("%s: backups for %s outside the window" % (tag, name))
                            continue
                        for path, kind in s.touched[i]:
                            bp = os.path.join(pdir, path)
                            if not os.path.exists(bp):
                                rc_all |= fail("%s: missing backup %s/%s" % (tag, name, path))
                                continue
                            pre = s.versions[i].get(path)
                            got = open(bp).read()
                            if (pre is None and got != "") or (pre is not None and got != pre[0]):
                                rc_all |= fail("%s: backup %s/%s does not hold the state before the patch" % (tag, name, path))
                    # simulated pop of the window
                    cur = tree(root)
                    for i in range(k - 1, k - n - 1, -1):
                        for path, kind in s.touched[i]:
                            bp = os.path.join(root, ".pc", s.patches[i][0], path)
                            if os.path.exists(bp):
                                data = open(bp).read()
                                if data == "" and s.versions[i].get(path) is None:
                                    cur.pop(path, None)
                                else:
                                    cur[path] = (data, stat.S_IMODE(os.lstat(bp).st_mode))
                    want = s.versions[k - n]
                    if dict((p, v[0]) for p, v in cur.items()) != dict((p, v[0]) for p, v in want.items()):
                        rc_all |= fail("%s: restoring the backups newest-first does not give the tree before them" % tag)
                finally:
                    shutil.rmtree(root, ignore_errors=True)
    for backup, failing, want in (("never", True, False), ("onfail", False, False), ("onfail", True, True)):
        s = sample_series(failing)
        root = tempfile.mkdtemp()
        try:
            s.materialize(root)
            push(binary, root, ["-a", "--threads", "1", "--backup", backup])
            has = any(os.path.isdir(os.path.join(root, ".pc", n)) for n, _ in s.patches)
            if has != want:
                rc_all |= fail("backup=%s failing=%s: backups present=%s" % (backup, failing, has))
        finally:
            shutil.rmtree(root, ignore_errors=True)
    rc_all |= scen_c08_modes(binary)
    return rc_all


def scen_c15(binary):
    rc_all = 0
    for failing in (False, True):
        for threads in ("1", "2"):
            s = sample_series(failing)
            root = tempfile.mkdtemp()
            twin = root + ".twin"
            try:
                s.materialize(root)
                os.chmod(os.path.join(root, "d", "b.txt"), 0o444)
                subprocess.run(["cp", "-al", root, twin], check=True)
                before = dict((p, (open(os.path.join(twin, p)).read(), os.lstat(os.path.join(twin, p)).st_mode)) for p in s.versions[0])
                push(binary, root, ["-a", "--threads", threads, "--backup", "always"])
                for p, v in before.items():
                    fp = os.path.join(twin, p)
                    if not os.path.exists(fp) or (open(fp).read(), os.lstat(fp).st_mode) != v:
                        rc_all |= fail("failing=%s threads=%s: hard-linked twin of %s changed" % (failing, threads, p))
            finally:
                shutil.rmtree(root, ignore_errors=True)
                shutil.rmtree(twin, ignore_errors=True)
    return rc_all


def scen_c18(binary):
    rc_all = 0
    for threads in ("1", "2"):
        # applied-patches cannot be written: it is a directory
        s = sample_series(False)
        root = tempfile.mkdtemp()
        try:
            s.materialize(root)
            os.makedirs(os.path.join(root, ".pc", "applied-patches"))
            rc, out = push(binary, root, ["-a", "--threads", threads])
            if rc not in (1,):
                rc_all |= fail("threads=%s: applied-patches unwritable but exit %d" % (threads, rc))
        finally:
            shutil.rmtree(root, ignore_errors=True)
        # a file to be created collides with a directory of the same name
        s = sample_series(False)
        root = tempfile.mkdtemp()
        try:
            s.materialize(root)
            os.makedirs(os.path.join(root, "n", "new.txt"))
            rc, out = push(binary, root, ["-a", "--threads", threads])
            ap = os.path.join(root, ".pc", "applied-patches")
            names = open(ap).read().split() if os.path.isfile(ap) else []
            if rc == 0:
                rc_all |= fail("threads=%s: a modified file could not be written but exit 0" % threads)
            if names:
                rc_all |= fail("threads=%s: patches recorded as applied although a file could not be written: %s" % (threads, names))
        finally:
            shutil.rmtree(root, ignore_errors=True)
        # a dangling symbolic link sits where a new file has to be created: creation fails with NotFound
        s = sample_series(False)
        root = tempfile.mkdtemp()
        try:
            s.materialize(root)
            os.makedirs(os.path.join(root, "n"))
            os.symlink("/nonexistent-dir/x", os.path.join(root, "n", "new.txt"))
            rc, out = push(binary, root, ["-a", "--threads", threads])
            ap = os.path.join(root, ".pc", "applied-patches")
            names = open(ap).read().split() if os.path.isfile(ap) else []
            if rc == 0 or names:
                rc_all |= fail("threads=%s: a new file could not be created (dangling symlink) but exit %d, recorded %s" % (threads, rc, names))
        finally:
            shutil.rmtree(root, ignore_errors=True)
        # a write fails (file size limit) in a run in which another patch is rejected
        s = sample_series(True)
        root = tempfile.mkdtemp()
        try:
            s.versions[0]["big.txt"] = ("".join("big line %06d\n" % i for i in range(8000)), 0o644)
            s.materialize(root)
            big = s.versions[0]["big.txt"][0]
            open(os.path.join(root, "patches", "p0.patch"), "w").write(udiff(big, big.replace("big line 004000", "BIG LINE"), "a/big.txt", "b/big.txt"))
            rest = open(os.path.join(root, "series")).read()
            open(os.path.join(root, "series"), "w").write("p0.patch\n" + rest)
            p = subprocess.run(["bash", "-c", "trap '' XFSZ; ulimit -f 16; exec \"$0\" push -d \"$1\" -a --threads %s --backup never" % threads, binary, root],
                               capture_output=True, text=True, timeout=120)
            ap = os.path.join(root, ".pc", "applied-patches")
            names = open(ap).read().split() if os.path.isfile(ap) else []
            if p.returncode == 0 or "p0.patch" in names:
                rc_all |= fail("threads=%s: big.txt could not be written (EFBIG) but exit %d, recorded %s" % (threads, p.returncode, names))
        finally:
            shutil.rmtree(root, ignore_errors=True)
        # .pc/applied-patches itself is cut short: 40 patch names (> 1 KiB) under a 1 KiB file size limit
        root = tempfile.mkdtemp()
        try:
            os.makedirs(os.path.join(root, "patches"))
            open(os.path.join(root, "t.txt"), "w").write("0\n")
            names = []
            for i in range(40):
                pn = "a-rather-long-patch-name-to-fill-the-file-%02d.patch" % i
                open(os.path.join(root, "patches", pn), "w").write("--- a/t.txt\n+++ b/t.txt\n@@ -1 +1 @@\n-%d\n+%d\n" % (i, i + 1))
                names.append(pn)
            open(os.path.join(root, "series"), "w").write("".join(n + "\n" for n in names))
            p = subprocess.run(["bash", "-c", "trap '' XFSZ; ulimit -f 1; exec \"$0\" push -d \"$1\" -a --threads %s --backup never" % threads, binary, root],
                               capture_output=True, text=True, timeout=120)
            ap = os.path.join(root, ".pc", "applied-patches")
            got = open(ap).read().split() if os.path.isfile(ap) else []
            if p.returncode == 0 and got != names:
                rc_all |= fail("threads=%s: applied-patches holds %d of %d names (file size limit) but exit 0" % (threads, len(got), len(names)))
        finally:
            shutil.rmtree(root, ignore_errors=True)
    return rc_all


def scen_c08_modes(binary):
    """the backup carries the mode the file had before the patch, also for modes the umask would filter (0664, 0775, 0600)
    and when the backup file exists already"""
    rc_all = 0
    old_umask = os.umask(0o022)
    try:
        for threads in ("1", "2"):
            root = tempfile.mkdtemp()
            try:
                os.makedirs(os.path.join(root, "patches"))
                for name, mode in (("shared.txt", 0o664), ("tool.sh", 0o775), ("secret.txt", 0o600)):
                    open(os.path.join(root, name), "w").write("one\ntwo\n")
                    os.chmod(os.path.join(root, name), mode)
                series = []
                for i, name in enumerate(("shared.txt", "tool.sh", "secret.txt", "shared.txt")):
                    pn = "m%d.patch" % i
                    cur = "one\ntwo\n" if i < 3 else "one\ntwo\nmore 0\n"
                    open(os.path.join(root, "patches", pn), "w").write(udiff(cur, cur + "more %d\n" % i, "a/" + name, "b/" + name))
                    series.append(pn)
                open(os.path.join(root, "series"), "w").write("".join(x + "\n" for x in series))
                # a stale backup file with another mode already sits where the first backup goes
                os.makedirs(os.path.join(root, ".pc", "m0.patch"))
                open(os.path.join(root, ".pc", "m0.patch", "shared.txt"), "w").write("stale\n")
                os.chmod(os.path.join(root, ".pc", "m0.patch", "shared.txt"), 0o600)
                rc, out = push(binary, root, ["-a", "--threads", threads, "--backup", "always"])
                if rc != 0:
                    rc_all |= fail("modes threads=%s: push failed (exit %d)" % (threads, rc))
                for pn, name, mode in (("m0.patch", "shared.txt", 0o664), ("m1.patch", "tool.sh", 0o775), ("m2.patch", "secret.txt", 0o600), ("m3.patch", "shared.txt", 0o664)):
                    bp = os.path.join(root, ".pc", pn, name)
                    if not os.path.exists(bp):
                        rc_all |= fail("modes threads=%s: missing backup %s/%s" % (threads, pn, name))
                    elif stat.S_IMODE(os.lstat(bp).st_mode) != mode:
                        rc_all |= fail("modes threads=%s: backup %s/%s has mode %o, the file had %o" % (threads, pn, name, stat.S_IMODE(os.lstat(bp).st_mode), mode))
            finally:
                shutil.rmtree(root, ignore_errors=True)
    finally:
        os.umask(old_umask)
    return rc_all


def scen_c13(binary):
    return scen_c05(binary)


def scen_c16(binary):
    rc_all = 0
    # -p0 / -p2 / -R and old-vs-new name selection
    root = tempfile.mkdtemp()
    try:
        os.makedirs(os.path.join(root, "patches"))
        os.makedirs(os.path.join(root, "x"))
        open(os.path.join(root, "x", "f.txt"), "w").write("one\ntwo\n")
        open(os.path.join(root, "g.txt"), "w").write("B\n")
        open(os.path.join(root, "h.txt"), "w").write("old\n")
        open(os.path.join(root, "patches", "p0.patch"), "w").write("--- x/f.txt\n+++ x/f.txt\n@@ -1,2 +1,2 @@\n one\n-two\n+TWO\n")
        open(os.path.join(root, "patches", "p2.patch"), "w").write("--- a/b/x/f.txt\n+++ a/b/x/f.txt\n@@ -1,2 +1,2 @@\n-one\n+ONE\n TWO\n")
        open(os.path.join(root, "patches", "rev.patch"), "w").write("--- a/g.txt\n+++ b/g.txt\n@@ -1 +1 @@\n-A\n+B\n")
        open(os.path.join(root, "patches", "names.patch"), "w").write("--- a/h.txt.orig\n+++ b/h.txt\n@@ -1 +1 @@\n-old\n+new\n")
        open(os.path.join(root, "series"), "w").write("# comment\n\np0.patch -p0\np2.patch -p2\nrev.patch -R\nnames.patch\n")
        for threads in ("1", "2"):
            w = root + ".w" + threads
            shutil.copytree(root, w)
            rc, out = push(binary, w, ["-a", "--threads", threads])
            got = (open(os.path.join(w, "x", "f.txt")).read(), open(os.path.join(w, "g.txt")).read(), open(os.path.join(w, "h.txt")).read())
            if rc != 0 or got != ("ONE\nTWO\n", "A\n", "new\n") or os.path.exists(os.path.join(w, "h.txt.orig")):
                rc_all |= fail("threads=%s: per-patch -p/-R or old/new name resolution wrong: exit %d %r" % (threads, rc, got))
            shutil.rmtree(w, ignore_errors=True)
    finally:
        shutil.rmtree(root, ignore_errors=True)
    # every spelling / order of the per-patch options getopts accepts means the same thing
    for opts in ("-p0 -R", "-R -p0", "-p 0 -R", "--strip=0 -R", "-Rp0", "-p0 --reverse", "--reverse --strip 0"):
        for threads in ("1", "2"):
            root = tempfile.mkdtemp()
            try:
                os.makedirs(os.path.join(root, "patches"))
                os.makedirs(os.path.join(root, "dir"))
                open(os.path.join(root, "dir", "rev.txt"), "w").write("NEW\n")
                open(os.path.join(root, "k.txt"), "w").write("k\n")
                open(os.path.join(root, "patches", "first.patch"), "w").write("--- dir/rev.txt\n+++ dir/rev.txt\n@@ -1 +1 @@\n-OLD\n+NEW\n")
                open(os.path.join(root, "patches", "second.patch"), "w").write("--- a/k.txt\n+++ b/k.txt\n@@ -1 +1 @@\n-k\n+K\n")
                open(os.path.join(root, "series"), "w").write("# c\n\nfirst.patch %s\nsecond.patch\n" % opts)
                rc, out = push(binary, root, ["-a", "--threads", threads])
                got = (open(os.path.join(root, "dir", "rev.txt")).read(), open(os.path.join(root, "k.txt")).read())
                if rc != 0 or got != ("OLD\n", "K\n"):
                    rc_all |= fail("threads=%s series options %r (strip 0, reversed): exit %d, files %r" % (threads, opts, rc, got))
            finally:
                shutil.rmtree(root, ignore_errors=True)
    # history-dependent name choice: the in-memory view (deleted / created earlier in this run) overrides the disk
    root = tempfile.mkdtemp()
    try:
        os.makedirs(os.path.join(root, "patches"))
        open(os.path.join(root, "del.txt"), "w").write("one\ntwo\n")
        P = {"01.patch": "--- a/del.txt\n+++ /dev/null\n@@ -1,2 +0,0 @@\n-one\n-two\n",
             "02.patch": "--- a/del.txt\n+++ b/made.txt\n@@ -0,0 +1 @@\n+alpha\n",
             "03.patch": "--- /dev/null\n+++ b/fresh.txt\n@@ -0,0 +1 @@\n+x\n",
             "04.patch": "--- a/fresh.txt\n+++ b/other.txt\n@@ -1 +1 @@\n-x\n+y\n"}
        for k, v in P.items():
            open(os.path.join(root, "patches", k), "w").write(v)
        open(os.path.join(root, "series"), "w").write("".join(k + "\n" for k in sorted(P)))
        for tag, runs in (("one run, 1 thread", [["-a", "--threads", "1"]]), ("one run, 2 threads", [["-a", "--threads", "2"]]),
                          ("split 2+rest", [["2", "--threads", "1"], ["-a", "--threads", "1"]]), ("split 1+rest, 2 threads", [["1", "--threads", "2"], ["-a", "--threads", "2"]])):
            w = root + ".h"
            shutil.copytree(root, w)
            rc = 0
            for a in runs:
                r, out = push(binary, w, a + ["--backup", "always"])
                rc |= r
            def rd(n):
                pth = os.path.join(w, n)
                return open(pth).read() if os.path.exists(pth) else None
            got = (rd("del.txt"), rd("made.txt"), rd("fresh.txt"), rd("other.txt"))
            if rc != 0 or got != (None, "alpha\n", "y\n", None):
                rc_all |= fail("%s: name choice ignores what earlier patches of the run did (deleted -> new name, created -> old name): exit %d del/made/fresh/other=%r" % (tag, rc, got))
            shutil.rmtree(w, ignore_errors=True)
    finally:
        shutil.rmtree(root, ignore_errors=True)
    return rc_all


def scen_c17(binary):
    rc_all = 0
    for threads in ("1", "2", "4"):
        for mode in ("missing", "garbled"):
            s = sample_series(False)
            root = tempfile.mkdtemp()
            try:
                s.materialize(root)
                victim = os.path.join(root, "patches", "p2.patch")
                if mode == "missing":
                    os.unlink(victim)
                else:
                    open(victim, "w").write("--- a/a.txt\n+++ b/a.txt\n@@ -1,2 +1,2 @@\n line 1\n?garbage\n")
                before = full_snapshot(root)
                rc, out = push(binary, root, ["-a", "--threads", threads])
                after = full_snapshot(root)
                tag = "threads=%s patch %s" % (threads, mode)
                if rc != 1:
                    rc_all |= fail("%s: exit %d, expected 1" % (tag, rc))
                # sequential pushes may legitimately have nothing to do; nothing may change in either driver
                if before != after:
                    ch = [p for p in set(before) | set(after) if before.get(p) != after.get(p)]
                    rc_all |= fail("%s: the refused push changed %s" % (tag, ch[:5]))
            finally:
                shutil.rmtree(root, ignore_errors=True)
    # goal: already applied / unknown
    s = sample_series(False)
    root = tempfile.mkdtemp()
    try:
        s.materialize(root)
        push(binary, root, ["2", "--threads", "1"])
        before = full_snapshot(root)
        for goal in ("p1.patch", "p2.patch", "nosuch.patch"):
            rc, out = push(binary, root, [goal, "--threads", "1"])
            if rc != 1 or full_snapshot(root) != before:
                rc_all |= fail("goal %s (already applied / unknown): exit %d, tree changed=%s" % (goal, rc, full_snapshot(root) != before))
    finally:
        shutil.rmtree(root, ignore_errors=True)
    # the same with EVERY patch of the series applied already, at default verbosity and with --quiet
    s = sample_series(False)
    root = tempfile.mkdtemp()
    try:
        s.materialize(root)
        push(binary, root, ["-a", "--threads", "1"])
        before = full_snapshot(root)
        for extra in ([], ["--quiet"]):
            for goal in ("p1.patch", "nosuch.patch"):
                rc, out = push(binary, root, [goal, "--threads", "1"] + extra)
                if rc != 1 or full_snapshot(root) != before:
                    rc_all |= fail("fully applied series, goal %s %s (already applied / unknown): exit %d (expected 1), tree changed=%s" % (goal, " ".join(extra), rc, full_snapshot(root) != before))
    finally:
        shutil.rmtree(root, ignore_errors=True)
    # a file deleted earlier in the run is "absent" for later patches of the same run
    for threads in ("1", "2"):
        root = tempfile.mkdtemp()
        try:
            os.makedirs(os.path.join(root, "patches"))
            open(os.path.join(root, "x.txt"), "w").write("old\n")
            open(os.path.join(root, "patches", "del.patch"), "w").write("--- a/x.txt\n+++ /dev/null\n@@ -1 +0,0 @@\n-old\n")
            open(os.path.join(root, "patches", "new.patch"), "w").write("--- a/x.txt\n+++ b/y.txt\n@@ -0,0 +1 @@\n+fresh\n")
            open(os.path.join(root, "series"), "w").write("del.patch\nnew.patch\n")
            rc, out = push(binary, root, ["-a", "--threads", threads])
            if rc != 0 or os.path.exists(os.path.join(root, "x.txt")) or not os.path.exists(os.path.join(root, "y.txt")):
                rc_all |= fail("threads=%s: a file deleted earlier in the run was chosen as patch target again (exit %d)" % (threads, rc))
        finally:
            shutil.rmtree(root, ignore_errors=True)
    return rc_all


SCEN = {"C17": scen_c17, "C05": scen_c05, "C10": scen_c10, "C08": scen_c08, "C13": scen_c13, "C15": scen_c15, "C18": scen_c18, "C16": scen_c16}

if __name__ == "__main__":
    pid, binary = sys.argv[1], os.path.abspath(sys.argv[2])
    fn = SCEN.get(pid)
    if fn is None:
        print("no scenario for %s" % pid)
        sys.exit(0)
    sys.exit(1 if fn(binary) else 0)
