#!/bin/sh
# C12 (replay for the Engine-B VC on write_file_patch_header_to): whatever modes a file patch carries are in its written form.
# A patch with mode lines (equal, different, only one side) whose hunk fails is pushed; the reject file is the written form and
# has to carry the same mode lines.
# usage: <script> <rapidquilt binary>
BIN=${1:-rapidquilt}
rc=0
i=0
for MODES in 'old mode 100644\nnew mode 100644\n' 'old mode 100644\nnew mode 100755\n' 'old mode 100755\nnew mode 100755\n'; do
  W=$(mktemp -d); mkdir -p $W/patches
  printf 'a\nb\nc\n' > $W/f.txt
  printf 'p1.patch\n' > $W/series
  printf "diff --git a/f.txt b/f.txt\n${MODES}--- a/f.txt\n+++ b/f.txt\n@@ -1,3 +1,3 @@\n a\n-X\n+B\n c\n" > $W/patches/p1.patch
  $BIN push -d $W -a --threads 1 >/dev/null 2>&1
  if [ ! -f $W/f.txt.rej ]; then echo "violation: variant $i: no reject file"; rc=1
  else
    want=$(printf "$MODES")
    got=$(grep ' mode ' $W/f.txt.rej)
    [ "$want" = "$got" ] || { echo "violation: variant $i: the patch carries [$(echo $want | tr '\n' ' ')], its written form [$(echo $got | tr '\n' ' ')]"; rc=1; }
  fi
  rm -rf $W
  i=$((i+1))
done
exit $rc
