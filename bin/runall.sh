#!/bin/bash
# Runs the quick (or given) tier of every claimed check one after the other, as `vp check` does; summary at the end.
cd "$(dirname "$0")/.."
tier=${1:-quick}; shift
ids=${@:-$(python3 -c "import json;print(' '.join(c['property_id'] for c in json.load(open('MANIFEST.json'))['checks']))")}
mkdir -p /var/tmp/rqv_all
for id in $ids; do
  t0=$(date +%s)
  python3 bin/check.py $id --tier $tier > /var/tmp/rqv_all/$id.$tier.log 2>&1
  rc=$?
  echo "$id tier=$tier exit=$rc wall=$(( $(date +%s) - t0 ))s $(grep -c '^VIOLATION' /var/tmp/rqv_all/$id.$tier.log) violation line(s)"
done
