#!/usr/bin/env python3
"""Developer helper: does the overlay (all harness modules, all instances of the given properties) compile under Kani?"""
import os, sys, shutil, subprocess, importlib
sys.path.insert(0, os.path.dirname(os.path.abspath(__file__)))
from rqv import overlay as ov, kani as K
from rqv.props import ALL_KF_TAGS
work = "/var/tmp/rqverif.cc"
shutil.rmtree(work, ignore_errors=True); os.makedirs(work)
insts = []
for p in sys.argv[1:]:
    insts += importlib.import_module("rqv.props.%s" % p.lower()).spec("thorough", 0).get("instances", [])
ovd = ov.make_overlay(os.path.join(work, "ov"))
gen = os.path.join(work, "gen"); K.write_instances(gen, insts)
open(os.path.join(gen, "kf.rs"), "w").write("".join("pub const %s: bool = false;\n" % t for t in ALL_KF_TAGS))
env = dict(os.environ); env.update(K.KANI_ENV); env["VERIF_GEN"] = gen; env["VERIF_CAP"] = "6"
rc = 0
for target, feat in (("lib", False), ("lib", True), ("bin", True)):
    tdir = os.path.join(work, "t_%s_%s" % (target, feat)); K.seed_target(tdir, target, feat)
    cmd = ["cargo", "kani", "--only-codegen", "--target-dir", tdir, "-Z", "stubbing"] + (["--lib"] if target == "lib" else ["--bin", "rapidquilt"]) + (["--features", "verif_containers"] if feat else [])
    p = subprocess.run(cmd, cwd=ovd, env=env, capture_output=True, text=True)
    errs = [l for l in (p.stdout + p.stderr).split("\n")]
    print("==", target, feat, "rc", p.returncode)
    if p.returncode:
        rc = 1
        import re
        txt = p.stdout + p.stderr
        for m in re.finditer(r"^error(\[E\d+\])?: .*(?:\n.*){0,12}", txt, re.M):
            print(m.group(0)[:1200]); print("--")
shutil.rmtree(work, ignore_errors=True)
sys.exit(rc)
