#!/usr/bin/env python3
"""Entry point: check.py <Cxx> [--tier quick|thorough] [--only SUBSTR] [--jobs N] [--keep]

Exit 0: every instance of the tier verified (unwinding assertions on, cover witnesses reached,
        vacuity twin violated as expected); known findings printed as KNOWN-FINDING lines.
Exit 1: a counterexample was found AND reproduced natively against the real code:
        `VIOLATION property=<id> replay=<path>`.
Exit 2: inconclusive (timeout, out of memory, overlay does not compile, counterexample that
        does not reproduce, cover witness unreachable).  Never reported as success.
"""
import argparse
import importlib
import os
import sys
import time

try:  # the z3 bindings live in the tooling venv
    import z3  # noqa: F401
except ImportError:
    if os.environ.get("RQV_REEXEC") != "1" and __name__ == "__main__":
        os.environ["RQV_REEXEC"] = "1"
        os.execvp("python3-vt", ["python3-vt"] + sys.argv)
    raise

sys.path.insert(0, os.path.dirname(os.path.abspath(__file__)))
# the thorough tier unrolls the loops of the MIR functions once more (read when rqv.mirvc is imported)
if "--tier" in sys.argv and sys.argv[sys.argv.index("--tier") + 1:][:1] == ["thorough"] or (os.environ.get("VERIF_TIER") == "thorough" and "--tier" not in sys.argv):
    os.environ.setdefault("VERIF_MIR_UNROLL", "3")
from rqv import runner  # noqa: E402


def do_replay(pid, path):
    """exit 1 if the recorded counterexample still violates the property on /repo's current tree, 0 if it no longer does."""
    import shutil
    import subprocess
    from rqv import replay, native, overlay as ov
    work = "/var/tmp/rqverif.replay.%d" % os.getpid()
    shutil.rmtree(work, ignore_errors=True)
    os.makedirs(work)
    try:
        snap = os.path.join(work, "harness")
        shutil.copytree(ov.HARNESS_SRC, snap)
        ov.HARNESS = snap
        if path.endswith(".rs"):
            ok, why, _ = replay.run_replay_file(pid, path, work, print)
            print("replay %s: %s" % (path, "VIOLATION reproduced: " + why if ok else "not reproduced (%s)" % why))
            return 1 if ok else 0
        binary = native.build_binary(work)
        if path.endswith(".sh"):
            p = subprocess.run(["bash", path, binary], capture_output=True, text=True)
        else:
            p = subprocess.run([sys.executable, os.path.join(ov.VERIF, "scenarios", "run.py"), pid, binary], capture_output=True, text=True)
        print((p.stdout + p.stderr).strip()[-1500:])
        print("replay %s: %s" % (path, "VIOLATION reproduced" if p.returncode else "property holds on this input"))
        return 1 if p.returncode else 0
    finally:
        shutil.rmtree(work, ignore_errors=True)


def main():
    ap = argparse.ArgumentParser()
    ap.add_argument("prop")
    ap.add_argument("--tier", default=os.environ.get("VERIF_TIER", "quick"), choices=["quick", "thorough"])
    ap.add_argument("--only", default=None, help="run only instances whose name contains this")
    ap.add_argument("--jobs", type=int, default=int(os.environ.get("VERIF_JOBS", "0")))
    ap.add_argument("--keep", action="store_true", help="keep the scratch overlay")
    ap.add_argument("--no-evidence", action="store_true")
    ap.add_argument("--replay", default=None, help="re-run a recorded counterexample (replays/<id>/*.rs|*.sh|*.txt, findings/*) against /repo's current tree")
    a = ap.parse_args()
    if a.replay:
        return do_replay(a.prop.upper(), a.replay)
    seed = int(os.environ.get("VERIF_SEED", "0") or 0)
    pid = a.prop.upper()
    try:
        mod = importlib.import_module("rqv.props.%s" % pid.lower())
    except ImportError as e:
        print("unknown property %s (%s)" % (pid, e))
        return 2
    t0 = time.time()
    rc = runner.run_property(mod, pid, a.tier, seed, only=a.only, jobs=a.jobs, keep=a.keep,
                             write_evidence=not a.no_evidence)
    print("[%s] tier=%s seed=%d exit=%d wall=%.0fs" % (pid, a.tier, seed, rc, time.time() - t0))
    return rc


if __name__ == "__main__":
    sys.exit(main())
