#!/usr/bin/env python3
"""setup_cmd: build the dependency caches used by the checks (offline, from files on disk).

/verif/.cache/target-<lib|bin>-<n|f>   Kani builds of the dependencies (n: plain, f: --features verif_containers)
/verif/.cache/target-replay-<lib|bin>-n  native playback builds (real memchr)
A missing cache only costs time (each instance then builds the dependencies itself).
"""
import os
import shutil
import subprocess
import sys
import time

try:  # z3 bindings live in the tooling venv
    import z3  # noqa: F401
except ImportError:
    if os.environ.get("RQV_REEXEC") != "1":
        os.environ["RQV_REEXEC"] = "1"
        os.execvp("python3-vt", ["python3-vt"] + sys.argv)

sys.path.insert(0, os.path.dirname(os.path.abspath(__file__)))
from rqv import overlay as ov, kani as K  # noqa: E402


def build(kind, target, features, work):
    ovdir = os.path.join(work, "ov_" + kind)
    gen = os.path.join(work, "gen")
    ov.make_overlay(ovdir, real_memchr=(kind == "replay"))
    os.makedirs(gen, exist_ok=True)
    K.write_instances(gen, [])
    with open(os.path.join(gen, "kf.rs"), "w") as f:
        from rqv.props import ALL_KF_TAGS
        for t in ALL_KF_TAGS:
            f.write("pub const %s: bool = false;\n" % t)
    env = dict(os.environ)
    env.update(K.KANI_ENV)
    env["VERIF_GEN"] = gen
    env["VERIF_CAP"] = "6"
    key = ("target-replay-%s-n" % target) if kind == "replay" else "target-%s-%s" % (target, "f" if features else "n")
    tdir = os.path.join(K.CACHE, key)
    shutil.rmtree(tdir, ignore_errors=True)
    os.makedirs(K.CACHE, exist_ok=True)
    if kind == "replay":
        env["CARGO_TARGET_DIR"] = tdir
        cmd = ["cargo", "kani", "playback", "-Z", "concrete-playback", "--only-codegen"]
        cmd += ["--lib"] if target == "lib" else ["--bin", "rapidquilt"]
    else:
        cmd = ["cargo", "kani", "--only-codegen", "--target-dir", tdir]
        cmd += ["--lib"] if target == "lib" else ["--bin", "rapidquilt"]
        if features:
            cmd += ["--features", "verif_containers"]
    t0 = time.time()
    p = subprocess.run(cmd, cwd=ovdir, env=env, capture_output=True, text=True)
    ok = p.returncode == 0
    print("%-28s %s %.0fs" % (key, "ok" if ok else "FAILED (cache skipped)", time.time() - t0), flush=True)
    if not ok:
        sys.stdout.write((p.stdout + p.stderr)[-3000:])
        shutil.rmtree(tdir, ignore_errors=True)
    else:
        # the crate's own artefacts are rebuilt per instance anyway: keep only dependencies fresh
        pass
    return ok


def main():
    work = "/var/tmp/rqverif.setup.%d" % os.getpid()
    shutil.rmtree(work, ignore_errors=True)
    os.makedirs(work)
    try:
        for kind, target, features in (("kani", "lib", False), ("kani", "lib", True), ("kani", "bin", False),
                                       ("kani", "bin", True), ("replay", "lib", False), ("replay", "bin", False)):
            build(kind, target, features, work)
        # MIR dump and native build caches (Engine B and binary replays)
        try:
            from rqv import mirvc, native
            t0 = time.time()
            mirvc.dump_mir(work, "bin")
            shutil.rmtree(os.path.join(K.CACHE, "target-mir"), ignore_errors=True)
            shutil.move(os.path.join(work, "mir_target"), os.path.join(K.CACHE, "target-mir"))
            print("%-28s ok %.0fs" % ("target-mir", time.time() - t0), flush=True)
            t0 = time.time()
            native.build_binary(work)
            shutil.rmtree(os.path.join(K.CACHE, "target-native"), ignore_errors=True)
            shutil.move(os.path.join(work, "native_target"), os.path.join(K.CACHE, "target-native"))
            print("%-28s ok %.0fs" % ("target-native", time.time() - t0), flush=True)
        except Exception as e:
            print("warning: MIR / native cache not built: %s" % str(e)[:300])
        # tools present?
        for tool in ("z3", "cvc5", "cbmc"):
            if shutil.which(tool) is None:
                print("warning: %s not on PATH" % tool)
    finally:
        shutil.rmtree(work, ignore_errors=True)
    return 0


if __name__ == "__main__":
    sys.exit(main())
