#!/usr/bin/env python3
"""Confirm a seeded change and run checks against it.

  seedeval.py confirm <src_dir> <seed_id> <PROP>   src_dir has patch.diff + demo.sh|demo_test.rs + README.md
      -> scratch worktree of /repo HEAD: patch applies, builds, the 49 tests pass, the demo fails with the change and
         passes without it; on success the files are copied to /verif/seeded/<seed_id>/ with meta.json
  seedeval.py run <seed_id> <PROP> [check.py args...]
      -> git -C /repo apply the patch, run check.py <PROP>, undo the patch straight afterwards; records the outcome in meta.json
"""
import json
import os
import shutil
import subprocess
import sys
import time

V = os.path.dirname(os.path.dirname(os.path.abspath(__file__)))
SEEDED = os.path.join(V, "seeded")
ENV = dict(os.environ, CARGO_NET_OFFLINE="true")


def sh(cmd, cwd=None, timeout=1800):
    p = subprocess.run(cmd, cwd=cwd, shell=isinstance(cmd, str), capture_output=True, text=True, timeout=timeout, env=ENV)
    return p.returncode, p.stdout + p.stderr


def confirm(src, sid, prop):
    wt = "/tmp/seedeval_%s" % sid
    sh("git -C /repo worktree remove --force %s" % wt)
    shutil.rmtree(wt, ignore_errors=True)
    rc, out = sh("git -C /repo worktree add --detach %s HEAD" % wt)
    if rc:
        print(out)
        return 2
    res = {"property": prop, "seed": sid, "confirmed": False, "ran": []}
    try:
        tdir = os.path.join(wt, "target")
        # unchanged build + tests give the baseline binary
        rc, out = sh("cargo build --offline", cwd=wt)
        orig = "/tmp/seedeval_%s.orig" % sid
        shutil.copy(os.path.join(tdir, "debug", "rapidquilt"), orig)
        rc, out = sh("git apply %s" % os.path.join(src, "patch.diff"), cwd=wt)
        rebased = False
        if rc:
            # the patch was written against an earlier commit: three-way merge onto HEAD, keep the rebased diff
            rc, out = sh("git apply --3way %s" % os.path.join(src, "patch.diff"), cwd=wt)
            rebased = True
        res["ran"].append("git apply%s patch.diff -> %d" % (" --3way" if rebased else "", rc))
        if rc:
            print("patch does not apply to HEAD:\n" + out)
            return 1
        if rebased:
            sh("git reset -q", cwd=wt)
            rc2, diff = sh("git diff", cwd=wt)
            with open(os.path.join(src, "patch.rebased.diff"), "w") as f:
                f.write(diff)
        rc, out = sh("cargo build --offline", cwd=wt)
        res["ran"].append("cargo build --offline -> %d" % rc)
        if rc:
            print("does not build\n" + out[-2000:])
            return 1
        rc, out = sh("cargo test --workspace --no-fail-fast --offline", cwd=wt)
        npass = sum(int(x.split(" passed")[0].split()[-1]) for x in out.split("\n") if x.startswith("test result:"))
        res["ran"].append("cargo test --workspace --no-fail-fast --offline -> %d (%d passed)" % (rc, npass))
        if rc or npass < 49:
            print("existing tests fail with the change (%d passed)\n%s" % (npass, out[-1500:]))
            return 1
        mut = os.path.join(tdir, "debug", "rapidquilt")
        demo = os.path.join(src, "demo.sh")
        if os.path.exists(demo):
            r1, o1 = sh(["bash", demo, orig], timeout=600)
            r2, o2 = sh(["bash", demo, mut], timeout=600)
            res["ran"].append("demo.sh <orig> -> %d ; demo.sh <mutant> -> %d" % (r1, r2))
            if not (r1 == 0 and r2 != 0):
                print("demo does not discriminate: orig=%d mutant=%d\n%s\n%s" % (r1, r2, o1[-800:], o2[-800:]))
                return 1
        else:
            res["ran"].append("library-level demo (demo_test.rs): see README.md; not re-run by seedeval")
        res["confirmed"] = True
        dst = os.path.join(SEEDED, sid)
        os.makedirs(dst, exist_ok=True)
        for f in os.listdir(src):
            if f in ("patch.diff", "demo.sh", "demo_test.rs", "README.md"):
                shutil.copy(os.path.join(src, f), os.path.join(dst, f))
        if os.path.exists(os.path.join(src, "patch.rebased.diff")) and rebased:
            shutil.copy(os.path.join(src, "patch.diff"), os.path.join(dst, "patch.original.diff"))
            shutil.copy(os.path.join(src, "patch.rebased.diff"), os.path.join(dst, "patch.diff"))
        meta_p = os.path.join(dst, "meta.json")
        meta = json.load(open(meta_p)) if os.path.exists(meta_p) else {}
        meta.update({"property": prop, "seed": sid, "needs_to_manifest": open(os.path.join(src, "README.md")).read()[:1500],
                     "confirmed_by": res["ran"], "confirmed_at_commit": sh("git -C /repo rev-parse --short HEAD")[1].strip()})
        json.dump(meta, open(meta_p, "w"), indent=1)
        print("confirmed %s: %s" % (sid, "; ".join(res["ran"])))
        return 0
    finally:
        sh("git -C /repo worktree remove --force %s" % wt)
        shutil.rmtree(wt, ignore_errors=True)
        try:
            os.unlink("/tmp/seedeval_%s.orig" % sid)
        except OSError:
            pass


def run(sid, prop, extra):
    """Runs the check against the tree with the seeded change.  Default: a scratch worktree of /repo's HEAD with the
    patch applied, handed to the check through VERIF_REPO (so that several evaluations can run side by side and
    /repo itself is never left modified); with --in-repo the patch is applied to /repo and undone straight afterwards."""
    dst = os.path.join(SEEDED, sid)
    patch = os.path.join(dst, "patch.diff")
    in_repo = "--in-repo" in extra
    extra = [e for e in extra if e != "--in-repo"]
    env = dict(ENV)
    wt = None
    if in_repo:
        rc, out = sh("git -C /repo status --porcelain --untracked-files=no")
        if out.strip():
            print("/repo has uncommitted changes; refusing")
            return 2
        rc, out = sh("git -C /repo apply %s" % patch)
    else:
        wt = "/tmp/seedrun_%s" % sid
        sh("git -C /repo worktree remove --force %s" % wt)
        shutil.rmtree(wt, ignore_errors=True)
        rc, out = sh("git -C /repo worktree add --detach %s HEAD" % wt)
        if rc == 0:
            rc, out = sh("git apply %s" % patch, cwd=wt)
            for f in ("Cargo.lock",):      # present in /repo's working tree but not tracked
                if os.path.exists(os.path.join("/repo", f)) and not os.path.exists(os.path.join(wt, f)):
                    shutil.copy(os.path.join("/repo", f), os.path.join(wt, f))
            if os.path.isdir("/repo/testdata") and not os.path.exists(os.path.join(wt, "testdata")):
                os.symlink("/repo/testdata", os.path.join(wt, "testdata"))
        env["VERIF_REPO"] = wt
    if rc:
        print("patch does not apply:\n" + out)
        if wt:
            sh("git -C /repo worktree remove --force %s" % wt)
        return 2
    t0 = time.time()
    try:
        p = subprocess.run([sys.executable, os.path.join(V, "bin", "check.py"), prop, "--no-evidence"] + extra, cwd=V, capture_output=True, text=True, env=env)
        txt = p.stdout + p.stderr
    finally:
        if in_repo:
            sh("git -C /repo checkout -- .")
        else:
            sh("git -C /repo worktree remove --force %s" % wt)
            shutil.rmtree(wt, ignore_errors=True)
    tail = [l for l in txt.split("\n") if l.startswith(("VIOLATION", "KNOWN-FINDING", "INCONCLUSIVE", "[")) or "what:" in l]
    print("\n".join(tail[-12:]))
    meta_p = os.path.join(dst, "meta.json")
    meta = json.load(open(meta_p)) if os.path.exists(meta_p) else {}
    meta.setdefault("check_runs", []).append({"check": "check.py %s %s" % (prop, " ".join(extra)), "exit": p.returncode, "wall_s": round(time.time() - t0),
                                             "lines": tail[-6:], "at_commit": sh("git -C /verif rev-parse --short HEAD")[1].strip()})
    json.dump(meta, open(meta_p, "w"), indent=1)
    return p.returncode


if __name__ == "__main__":
    if sys.argv[1] == "confirm":
        sys.exit(confirm(sys.argv[2], sys.argv[3], sys.argv[4]))
    elif sys.argv[1] == "run":
        sys.exit(run(sys.argv[2], sys.argv[3], sys.argv[4:]))
