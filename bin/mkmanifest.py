#!/usr/bin/env python3
"""Regenerates MANIFEST.json from the table below (kept in one place so it is always valid)."""
import json, os, sys
V = os.path.dirname(os.path.dirname(os.path.abspath(__file__)))

KANI_NOTE = ("Trusted: rustc/Kani 0.68/CBMC 6.11/cadical; stand-in crates memchr (byte loop) and backtrace (empty) on the overlay "
             "build; Kani's allocation model; the reference oracle in /verif/harness (written from the property text). "
             "Bounded: nothing is claimed outside the instance matrix listed in the evidence file; unwinding assertions are on; "
             "timeouts / OOM / unreachable cover witnesses exit 2, never 0. Counterexamples are replayed natively on the real "
             "containers and the real memchr before a VIOLATION line is printed.")

CHECKS = {
 "C02": dict(level="model_checking", engine="kani+mirvc",
    text="Bounded model checking (Kani/CBMC) of the real try_apply_hunk + HunkView against a reference placement written from the "
         "property: for each concrete shape (file <= 5 lines, old side <= 5, fuzz level <= 2, both directions) the SAT solver decides "
         "every line-equality pattern, stated line, previous offset and frozen line at once; HunkView::new's fuzz arithmetic is decided "
         "for all 64-bit values without bound. Engine B: the hand-over between hunks in apply_modify (previous offset = the offset just reported, frozen line = line + old-side length - trailing context of the view that matched, Forward/Revert views, current fuzz level) is decided over MIR for any number of hunks; candidates are replayed by a native random sweep against the reference.",
    technique="bounded model checking of the real code (Kani/CBMC, SAT) with symbolic contents and positions, differential against a reference; SMT-decided VC over MIR for the inter-hunk bookkeeping",
    ref="DESIGN.md §2 C02"),
}

MIR_NOTE = ("Trusted: rustc nightly's MIR dump, mirvc's MIR parser and model table (bin/rqv/mirvc.py), z3 4.8.12 (queries cross-checked with cvc5). "
            "Callees are havoc'd (arbitrary result, &mut arguments invalidated) except the listed models and stated contracts; unwinding out of callees is not followed. "
            "unsat = holds for the modelled semantics within 2 loop unrollings; a sat answer is only reported after the real binary reproduces it on a generated workspace.")

CHECKS["C17"] = dict(level="other", engine="mirvc",
    text="Bounded symbolic execution of cmd_push's MIR with series length, applied-patches length, goal and Iterator::position result as 64-bit symbols: "
         "every checked-arithmetic assert and the Index<Range> precondition of series_patches[first_patch..last_patch] is decided by z3 for all values; "
         "candidates are turned into workspaces and run through the real binary (exit status must be 0/1).",
    technique="symbolic execution of the compiler's MIR with an SMT solver (z3, cross-checked with cvc5); counterexamples replayed through the real binary",
    ref="DESIGN.md §2 C17, §4", note=MIR_NOTE)

def mir_check(text, ref):
    return dict(level="other", engine="mirvc", text=text, ref=ref, note=MIR_NOTE,
                technique="symbolic execution of the compiler's MIR with an SMT solver (z3, cross-checked with cvc5); candidates replayed through the real binary")

CHECKS["C05"] = mir_check("Necessary conditions of all-or-nothing decided over the MIR of both drivers and cmd_push: rollback of the failing patch precedes any save and ends the loop; "
    "the drivers return applied + skipped == len (checked arithmetic proved safe with Enumerate::next modelled); applied-patches receives exactly series[0..applied], only on Ok; "
    "rejects only for the rejected patch; the parallel stop test is strict; every parallel worker rolls the failing patch back before it saves, whether or not one of its own file patches failed. Tree equality on disk is outside (file I/O); in-memory undo is C04.", "DESIGN.md §2 C05")
CHECKS["C08"] = mir_check("Backup window decided for all 64-bit final_patch / backup-count values over the MIR of both drivers: the backup block runs iff !dry_run && (always || (onfail && stopped early)), "
    "down_to_index == final_patch -. n (All => 0), no backup below the window, a rename gets two backups, applied-patches gets exactly the applied prefix; a backup gets the file's permissions through set_permissions before its content is written. Bytes under .pc/** are I/O: outside.", "DESIGN.md §2 C08")
CHECKS["C10"] = mir_check("Guard lemma: a fixpoint over the MIR call graph computes the functions that may reach a file-system writing primitive although dry_run is true; "
    "each driver leaves that set only when z3 shows every call into it unreachable under dry_run == true (and reachable without it). Outcome equality with a real run is outside.", "DESIGN.md §2 C10")
CHECKS["C15"] = mir_check("Ordering lemma on save_modified_file's MIR: every path reaching File::create for a file that existed has called remove_file before, which succeeded or failed with NotFound, and nothing else "
    "(chmod, open, truncate) touches the existing file before it is unlinked. The lemma rests on `existed` recording the on-disk state: three Kani instances show rename (move_out / move_in / undo) never changes that flag. "
    "Inode identity and untouched files are outside (I/O).", "DESIGN.md §2 C15")
CHECKS["C15"]["engine"] = "kani+mirvc"
CHECKS["C15"]["note"] = KANI_NOTE + " " + MIR_NOTE
CHECKS["C18"] = mir_check("Ok-continuation lemma: applied-patches is written only when the driver returned Ok, an Err never becomes Ok in cmd_push, and main returns status 0 only for Ok(true). "
    "BufWriters are flushed explicitly before Ok; the workers' errors are checked before Ok; the output functions never use Write::write (short writes). That every individual write error is propagated needs syscall fault injection: outside this technique (scenario replays induce EFBIG / ENOTDIR / dangling links).", "DESIGN.md §2 C18")
CHECKS["C13"] = dict(level="model_checking", engine="kani+mirvc",
    text="Guards decided over MIR: a reject file is created only for a file patch of the rejected patch whose report failed; the reject pass returns Ok only when the stack top no longer belongs to the rejected patch (no arm leaves the loop early); "
         "every hunk of a file patch is tried (no hunk is written off after an earlier failure); the reject file's name is made from the file's own path with the directory kept; "
         "the failing patch's other file patches are still attempted by every worker and later ones are not; rollback and rejects precede save. Writer (Kani): write_rej_to's output for one failed one-line hunk with symbolic bytes is exactly the file header, "
         "the hunk header and the hunk's lines as records; nothing is written when every hunk applied (1-3 hunks).",
    technique="bounded model checking (Kani/CBMC) of the reject writer plus SMT-decided guard VCs over the drivers' MIR", ref="DESIGN.md §2 C13", note=KANI_NOTE + " " + MIR_NOTE)

def kani_check(text, ref, technique="bounded model checking of the real code (Kani/CBMC, SAT) with symbolic contents; reference oracle written from the property text", engine="kani"):
    return dict(level="model_checking", engine=engine, text=text, ref=ref, technique=technique)

CHECKS["C01"] = kani_check("Decided as a chain of solver-checked lemmas with fully asserted interfaces: (1) every hunk text of a bounded edit script (symbolic line bytes, `\\ No newline` either side, "
    "empty-side start-line convention) parses to exactly its old/new sequences, context counts and 0-based start lines; (2) parse_filename keeps name bytes (header dialect -> kind/names end to end does not fit: thorough tier attempts it, see evidence); "
    " (3) such Hunks applied to an A assembled from their own old sides apply at offset 0 / fuzz 0, give exactly B, and applied reversed to B give A (modify, create, delete); line splitting keeps terminators.",
    "DESIGN.md §2 C01", technique="bounded model checking (Kani/CBMC) of parser and apply code, composed lemma by lemma; SMT-decided VC over MIR for the inter-hunk bookkeeping", engine="kani+mirvc")
CHECKS["C03"] = kani_check("Real apply_modify on two-hunk file patches (N=3 with both stated lines symbolic: every offset / overlap arrangement; N=4 with stated lines from the matrix), symbolic line bytes: "
    "the resulting content equals a changed-regions-only reconstruction from the hunk reports; failed hunks contribute nothing; no panic/overflow. Engine B: the hand-over between hunks in apply_modify (previous offset = the offset just reported, frozen line = line + old-side length - trailing context of the view that matched, Forward/Revert views, current fuzz level) is decided over MIR for any number of hunks; candidates are replayed by a native random sweep against the reference.", "DESIGN.md §2 C03", engine="kani+mirvc")
CHECKS["C04"] = dict(level="model_checking", engine="kani+mirvc",
    text="apply followed by rollback is the identity on (content, deleted, permissions) for every content / permission value inside each concrete shape: modify (one hunk with symbolic stated line, two hunks), "
         "create/delete with every name/file-state combination and symbolic modes, rename undo via move_out/move_in; rollback's panic is a checked property. LIFO over a stack follows by composition. "
         "Driver glue (MIR): every FilePatch::rollback call passes the direction recorded in the report it undoes.",
    technique="bounded model checking (Kani/CBMC) of apply+rollback; SMT-decided VC over the drivers' MIR for the undo direction", ref="DESIGN.md §2 C04", note=KANI_NOTE + " " + MIR_NOTE)
CHECKS["C07"] = kani_check("FilenameDistributor<u8>, one inductive step from an ARBITRARY valid union-find state instead of call histories: the parent array is symbolic under the representation invariant cc[i] <= i "
    "(every such forest is reachable by some add history), N <= 5 names (7 in the thorough tier); build(): every name goes to its representative's worker, ids < thread_count for every thread count 1..16; add(): for every call (both names, "
    "rename or not, new names in order of appearance) the invariant is kept and exactly the two components of the call are merged. Plus concrete call prefixes with a symbolic last call. std HashMap is an association list on the overlay; replay uses the real HashMap. "
    "Engine B: in parallel::apply_patches every file patch taken from a patch is handed to FilenameDistributor::add before the next one is taken and before build() (candidates replayed by comparing 2..4 workers with one on generated series).", "DESIGN.md §2 C07, §11",
    engine="kani+mirvc", technique="bounded model checking (Kani/CBMC) of the union-find from an arbitrary valid state; SMT-decided ordering VC over the driver's MIR")

CHECKS["C11"] = kani_check("Every sub-parser on fully symbolic buffers (<= 12 bytes; keyword lines with symbolic tails): no panic / overflow / out-of-bounds / unwrap-on-None, termination inside the unwinding bound, remainder a strict suffix; "
    "numeric header fields: every 1..21-digit string gives its value or an error, extreme values (2^63, 2^64-1, 10^12, ...) through parse_hunk with capacity <= input length; placement terminates within a file-size bound for every stated line up to 2^62. Engine B: build_filepatch marks a file patch as a rename only when both names are real, "
    "the invariant its consumers unwrap on (candidates replayed through the real binary: exit status must be 0/1).",
    "DESIGN.md §2 C11", engine="kani+mirvc", technique="bounded model checking (Kani/CBMC) of every sub-parser on symbolic buffers; SMT-decided VC over MIR for the FilePatch rename invariant")
CHECKS["C12"] = dict(level="model_checking", engine="kani+mirvc",
    text="Hunk level only. (i) header: start lines {0,1,9,10,98,99} x empty/non-empty sides through the real formatter are parsed back to the same start lines and counts (Kani); the start-line arithmetic of write_header_to composed with "
         "parse_hunk's target_line is the identity for EVERY 64-bit value (function summaries over MIR composed in z3). (ii') body: for hunks with <= 1 line per side (<= 2 in the thorough tier) and symbolic bytes the records write_to emits are, in order, "
         "exactly the old and the new sequence, a context record only for a line equal on both sides (Kani, record scan; with C01's lemma 1 this gives write-then-parse). File headers: only the mode lines (a mode the file patch carries gets its line, whatever the other side's mode is: MIR VC, replayed through reject files); names, hashes and keywords, the parser round trip on symbolic bytes and larger hunks are outside (stated in the evidence).",
    technique="bounded model checking (Kani/CBMC) of the hunk writer; SMT-composed function summaries over MIR for the start-line arithmetic", ref="DESIGN.md §2 C12, §11", note=KANI_NOTE + " " + MIR_NOTE)

CHECKS["C16"] = dict(level="model_checking", engine="kani+mirvc",
    text="FilePatch::strip on symbolic name bytes over {a . /} (<= 4 bytes, Borrowed and Owned) leaves exactly the bytes from the (N+1)-th component on, for both names (bytewise reference: runs of slashes once, '.' dropped except leading); "
         "MIR: every SeriesPatch built by read_series_file has strip == N for a usable -pN and 1 otherwise, no -R without the option; choose_filename_to_patch returns the old name iff it exists in memory (not deleted) or, when not loaded, on disk, "
         "else the new name, never neither; apply direction is Revert iff the series entry says -R and the fuzz passed is config.fuzz. getopts' own parsing of the option words is outside.",
    technique="bounded model checking (Kani/CBMC) of strip; SMT-decided decision-table VCs over MIR", ref="DESIGN.md §2 C16", note=KANI_NOTE + " " + MIR_NOTE)

CHECKS["C19"] = dict(level="model_checking", engine="kani+mirvc",
    text="MIR: parse_patch strips, then calls the unsafe-name check for every file patch and returns Err when it fires, on every path; is_unsafe classifies Prefix / root / '..' components as dangerous and '.' / normal ones as safe (decision table). "
         "Kani: strip on symbolic names leaves exactly the bytes after the first N components (shared with C16); concrete patch texts show the refusal end to end (plain, quoted-octal, git-line-only, old-name-only, second file) and that names made safe by stripping stay accepted. "
         "The unsafe-name check composed with strip on symbolic names is outside (Components::any over symbolic bytes exceeds 8 GB for 3 bytes).",
    technique="SMT-decided VCs over MIR (wiring, decision table) plus bounded model checking (Kani/CBMC) of strip and of concrete refusals", ref="DESIGN.md §2 C19", note=KANI_NOTE + " " + MIR_NOTE)

CHECKS["C20"] = kani_check("The same file patch is applied at fuzz limit F and F+1 (F in {0,1}) on equal copies with symbolic line bytes, for every stated line 0..4 of a 4-line file: ok at F implies ok at F+1 with identical per-hunk "
    "(line, offset, fuzz) and identical content; the recorded fuzz is the least level at which the reference placement finds a position. Engine B: the hand-over between hunks in apply_modify (previous offset = the offset just reported, frozen line = line + old-side length - trailing context of the view that matched, Forward/Revert views, current fuzz level) is decided over MIR for any number of hunks; candidates are replayed by a native random sweep against the reference.", "DESIGN.md §2 C20", engine="kani+mirvc")

NOT_APPLICABLE = {
 "C06": "thread interleavings over rayon's pool and real files: Kani does not model threads, and a hand model of the workers would not be the real code (DESIGN.md §2 C06)",
 "C09": "multi-invocation histories through files on disk (.pc/applied-patches read back by a later process): no pure core beyond the range arithmetic claimed under C17",
 "C14": "--mmap is libc::mmap FFI, verbosity/colour/stats are terminal I/O: nothing a solver can encode; the one pure part (analyses take & only) is enforced by rustc",
}
PENDING = "check not built yet in this session (planned, see DESIGN.md §2); not claimed until it exists"

def main():
    props = [json.loads(l)["id"] for l in open(os.path.join(V, "properties.jsonl"))]
    checks = []
    for pid in props:
        if pid not in CHECKS: continue
        c = CHECKS[pid]
        checks.append({
            "property_id": pid,
            "quick_cmd": "python3 bin/check.py %s --tier quick" % pid,
            "thorough_cmd": "python3 bin/check.py %s --tier thorough" % pid,
            "evidence_file": "/verif/evidence/%s.json" % pid,
            "replay_cmd_template": "python3 bin/check.py %s --replay {path}" % pid,
            "engine": c["engine"],
            "level_claimed": {"category": c["level"], "text": c["text"], "design_ref": c["ref"]},
            "level_note": c.get("note", KANI_NOTE),
            "technique": c["technique"],
        })
    na = []
    for pid in props:
        if pid in CHECKS: continue
        na.append({"property_id": pid, "reason": NOT_APPLICABLE.get(pid, PENDING)})
    man = {
        "version": 1,
        "setup_cmd": "python3 bin/setup.py",
        "hooks": {
            "guard": "cfg(kani) + cargo feature verif_containers, both existing only on the scratch overlay copy of /repo (no hook is committed to /repo)",
            "enable": "bin/rqv/overlay.py copies /repo's working tree to /var/tmp, appends `#[cfg(kani)] #[path=\"/verif/harness/..\"] mod verif_h;` lines and patches Cargo.toml; checks build that copy with cargo kani",
            "baseline_off_cmd": "cd /repo && cargo test --workspace --no-fail-fast --offline",
            "source_commits": [],
            "add_only": True,
        },
        "engines": [
            {"name": "kani", "path": "bin/rqv/kani.py", "serves_properties": [p for p in props if p in CHECKS and CHECKS[p]["engine"] in ("kani", "kani+mirvc")],
             "kind_free_text": "Kani 0.68 / CBMC 6.11 bounded model checking of harness families in /verif/harness on an overlay build of /repo"},
            {"name": "mirvc", "path": "bin/rqv/mirvc.py", "serves_properties": [p for p in props if p in CHECKS and CHECKS[p]["engine"] in ("mirvc", "kani+mirvc")],
             "kind_free_text": "bounded symbolic execution of the nightly MIR dump of the driver glue, VCs decided by z3 (cross-checked with cvc5)"},
        ],
        "checks": checks,
        "not_applicable": na,
        "notes": "Exit codes: 0 held on everything explored, 1 + VIOLATION line (replayed natively), 2 inconclusive. KNOWN_FINDINGS.json lists recorded and fixed findings.",
    }
    json.dump(man, open(os.path.join(V, "MANIFEST.json"), "w"), indent=1)

if __name__ == "__main__":
    main()
