"""Runs one property's checks (Engine A instances via Kani, Engine B VCs via mirvc), replays
counterexamples natively, prints VIOLATION / KNOWN-FINDING lines, writes evidence."""
import json
import os
import re
import shutil
import subprocess
import sys
import time

from . import kani as K
from . import overlay as ov

VERIF = ov.VERIF
EVID = os.path.join(VERIF, "evidence")
REPLAYS = os.path.join(VERIF, "replays")
KF_FILE = os.path.join(VERIF, "KNOWN_FINDINGS.json")


def log(msg):
    print(msg, flush=True)


def load_known_findings(pid):
    if not os.path.exists(KF_FILE):
        return []
    with open(KF_FILE) as f:
        data = json.load(f)
    return [e for e in data.get("findings", []) if e.get("property") == pid]


def default_jobs(instances):
    if not instances:
        return 1
    ncpu = os.cpu_count() or 4
    avail = K._available_gb()
    # declared caps are ceilings for the watchdog; typical use is about half.  The start of each solver is gated on
    # MemAvailable anyway (kani._acquire_mem), so the thread count only has to be large enough not to waste cores.
    mem = sum(i.mem_gb for i in instances) / float(len(instances))
    return max(1, min(ncpu - 2, int((avail - 6) // max(1.0, mem * 0.5)), len(instances)))


def run_property(mod, pid, tier, seed, only=None, jobs=0, keep=False, write_evidence=True):
    t0 = time.time()
    spec = mod.spec(tier, seed)
    instances = spec.get("instances", [])
    if only:
        instances = [i for i in instances if any(o in i.name for o in only.split(','))]
    work = "/var/tmp/rqverif.%s.%d" % (pid, os.getpid())
    shutil.rmtree(work, ignore_errors=True)
    os.makedirs(work)
    # the harness sources are snapshotted per run, so that editing /verif/harness does not disturb a run in flight
    snap = os.path.join(work, "harness")
    shutil.copytree(ov.HARNESS_SRC, snap)
    ov.HARNESS = snap
    rc = 0
    results = []
    vc_results = []
    violations = []
    inconclusive = []
    undecided = []
    skipped = []
    kf_lines = []
    try:
        # ------------------------------------------------------------- Engine B (MIR VCs)
        if spec.get("mir_vcs"):
            from . import mirvc
            vc_results = mirvc.run_vcs(spec["mir_vcs"], work, pid, log)
            for v in vc_results:
                if v["verdict"] == "violation":
                    violations.append(("mir", v))
                elif v["verdict"] == "inconclusive":
                    inconclusive.append("VC %s: %s" % (v["name"], v.get("reason", "")))
        # quick tier: an Engine-B candidate is replayed at once; when the real code reproduces it the verdict is settled and the
        # solver time of Engine A is not spent (the command has to report inside its time cap)
        replay_memo = {}
        if tier == "quick" and violations:
            from . import replay as _rp
            for kind, v in violations:
                rep = _rp.replay_mir(pid, v, work, log, mod)
                replay_memo[id(v)] = rep
                if rep["reproduced"] and match_known(pid, rep, v, kind) is None:
                    for i in instances:
                        skipped.append("%s: not started: a violation was already reproduced natively (%s)" % (i.name, v.get("name", "")[:60]))
                    instances = []
                    break
        # ------------------------------------------------------------- Engine A (Kani)
        if instances:
            ovdir = os.path.join(work, "ov")
            gen = os.path.join(work, "gen")
            try:
                ov.make_overlay(ovdir, modules=sorted(set(i.module for i in instances)))
            except ov.OverlayError as e:
                log("INCONCLUSIVE: overlay: %s" % e)
                inconclusive.append("overlay: %s" % e)
                instances = []
            if instances:
                K.write_instances(gen, instances)
                write_kf_consts(gen, pid)
                j = jobs or default_jobs(instances)
                log("[%s] %d Kani instance(s), %d job(s), tier=%s" % (pid, len(instances), j, tier))

                def progress(r):
                    log("  %-52s %-12s %6.0fs %6d MB %s" % (r.inst.name, r.verdict, r.wall_s, r.max_rss_mb,
                                                          (r.reason or "")[:140]))
                # longest-first (declared memory cap as the cost proxy), vacuity twins first of all: shortens the makespan, and a budget cut hits the cheap tail
                instances = sorted(instances, key=lambda i: (0 if i.expect_fail else 1, -i.mem_gb))
                if tier == "quick":
                    # the quick command is meant for every change: stay inside ~13 minutes whatever the machine is doing
                    budget = float(os.environ.get("VERIF_QUICK_BUDGET_S", "780"))
                    left = max(120.0, budget - (time.time() - t0))
                    K.CTL.update(launch_deadline=time.time() + left * 0.45, hard_deadline=time.time() + left * 0.8, stop=False)
                else:
                    K.CTL.update(launch_deadline=None, hard_deadline=None, stop=False)
                results = K.run_all(instances, ovdir, gen, work, os.path.join(work, "logs"), jobs=j, progress=progress)
                K.CTL.update(launch_deadline=None, hard_deadline=None, stop=False)
                for r in results:
                    if r.verdict == K.SKIPPED:
                        skipped.append("%s: %s" % (r.inst.name, r.reason))
                        continue
                    if r.inst.expect_fail:
                        if r.verdict == K.FAIL:
                            r.verdict = K.OK
                            r.reason = "vacuity twin violated as expected"
                            r.failed_checks = []
                        else:
                            why = "vacuity twin did not fail (%s %s)" % (r.verdict, r.reason)
                            r.verdict, r.reason = K.INCONCLUSIVE, why
                    if r.verdict == K.FAIL:
                        violations.append(("kani", r))
                    elif r.verdict == K.INCONCLUSIVE:
                        if tier == "thorough" and re.search(r"memory cap|timeout after|no verdict in log|unwinding assertion failed", r.reason or ""):
                            # the thorough tier reaches for instances beyond the measured envelope: one that runs out of its
                            # memory / time budget -- or whose unwinding bound turns out too small for it -- is reported as not
                            # decided (log line + evidence), it is neither success nor alarm
                            undecided.append("%s: %s" % (r.inst.name, r.reason))
                        else:
                            inconclusive.append("%s: %s" % (r.inst.name, r.reason))
                        save_log(pid, r)
        # ------------------------------------------------------------- replay candidates
        confirmed = []
        from . import replay
        # A change that compiles with the real containers but not with the overlay's stand-ins cannot be encoded (exit 2).  So that
        # a broken tree is not waved through as merely inconclusive, the family's native sweep (real containers, random inputs
        # against the reference) is run in that case; only a natively reproduced failure is reported.
        build_fail = [m for m in inconclusive if "overlay build / kani invocation failure" in m]
        if build_fail and getattr(mod, "FALLBACK_SWEEP", None):
            fmod, ftest = mod.FALLBACK_SWEEP
            log("  the overlay does not build (%d instance(s)); running the native sweep %s on the real containers" % (len(build_fail), ftest))
            rep = replay.replay_by_sweep(pid, {"name": "overlay build failure", "candidates": [{"what": build_fail[0][:200]}]}, work, log, module=fmod, testname=ftest)
            if rep["reproduced"]:
                confirmed.append(rep)
        for kind, v in violations:
            if kind == "kani":
                rep = replay.replay_kani(pid, v, work, log)
            elif id(v) in replay_memo:
                rep = replay_memo[id(v)]
            else:
                rep = replay.replay_mir(pid, v, work, log, mod)
            if rep["reproduced"]:
                kf = match_known(pid, rep, v, kind)
                if kf is not None:
                    kf_lines.append("KNOWN-FINDING: property=%s %s" % (pid, kf["what"]))
                else:
                    confirmed.append(rep)
            else:
                inconclusive.append("counterexample did not reproduce natively (%s): %s" %
                                    (rep.get("name"), rep.get("why", "")))
        # known findings replayed natively even when the solver is kept away from them
        for e in load_known_findings(pid):
            if e.get("status") != "open":
                continue
            if any(e["what"] in l for l in kf_lines):
                continue
            ok = replay.replay_known(pid, e, work, log, mod)
            if ok:
                kf_lines.append("KNOWN-FINDING: property=%s %s" % (pid, e["what"]))
        for l in sorted(set(kf_lines)):
            log(l)
        for rep in confirmed:
            log("VIOLATION property=%s replay=%s" % (pid, rep["path"]))
            log("  what: %s" % rep.get("what", ""))
        for m in undecided:
            log("UNDECIDED (resource limit, thorough tier): %s" % m)
        for m in skipped:
            log("SKIPPED (quick-tier time budget): %s" % m)
        if confirmed:
            rc = 1
        elif inconclusive:
            rc = 2
            for m in inconclusive:
                log("INCONCLUSIVE: %s" % m)
        if write_evidence:
            write_ev(pid, tier, seed, spec, results, vc_results, confirmed, inconclusive, kf_lines, time.time() - t0, undecided, skipped)
    finally:
        if not keep:
            shutil.rmtree(work, ignore_errors=True)
        else:
            log("scratch kept at %s" % work)
    return rc


def write_kf_consts(gen, pid):
    """Exclusion switches for open known findings (role-keyed), visible to harnesses as `kf::TAG`."""
    tags = {}
    if os.path.exists(KF_FILE):
        with open(KF_FILE) as f:
            for e in json.load(f).get("findings", []):
                if e.get("tag"):
                    tags[e["tag"]] = (e.get("status") == "open")
    # every tag a harness may reference must exist: declare the full list, default false
    from .props import ALL_KF_TAGS
    with open(os.path.join(gen, "kf.rs"), "w") as f:
        f.write("// generated: which known findings are open (their role predicate is excluded from the search)\n")
        for t in ALL_KF_TAGS:
            f.write("pub const %s: bool = %s;\n" % (t, "true" if tags.get(t) else "false"))


def match_known(pid, rep, v, kind):
    for e in load_known_findings(pid):
        if e.get("status") != "open":
            continue
        tag = e.get("match")
        if tag and tag in (rep.get("tags") or []):
            return e
    return None


def save_log(pid, r):
    try:
        d = os.path.join(REPLAYS, pid, "logs")
        os.makedirs(d, exist_ok=True)
        if r.log and os.path.exists(r.log):
            # keep only the tail: logs are large
            with open(r.log, errors="replace") as f:
                txt = f.read()
            with open(os.path.join(d, os.path.basename(r.log)), "w") as f:
                f.write(txt[-200000:])
    except Exception:
        pass


def write_ev(pid, tier, seed, spec, results, vc_results, confirmed, inconclusive, kf_lines, wall, undecided=(), skipped=()):
    os.makedirs(EVID, exist_ok=True)
    inst_json = [r.to_json() for r in results]
    n_ok = sum(1 for r in results if r.verdict == K.OK)
    n_vc_ok = sum(1 for v in vc_results if v["verdict"] == "holds")
    tot_vcc = sum(r.stats.get("vccs", 0) for r in results)
    tot_checks = sum(r.stats.get("checks_total", 0) for r in results)
    solver_s = sum(r.stats.get("solver_s", 0) for r in results) + sum(v.get("solver_s", 0) for v in vc_results)
    symex_s = sum(r.stats.get("symex_s", 0) for r in results)
    def vc_sites(v):
        return sum(int(val) for k, val in v.items() if isinstance(val, int) and not isinstance(val, bool) and
                   k.endswith(("_reached", "_checked", "_sites")))
    nontrivial = sum(1 for r in results if r.verdict == K.OK and not r.inst.expect_fail and
                     (r.stats.get("vccs_remaining", 0) > 0)) + sum(max(1, vc_sites(v)) for v in vc_results if v["verdict"] == "holds" and v.get("queries", 0) > 0)
    samples = []
    for r in results[:6]:
        samples.append({"kani_harness": r.inst.name, "family": r.inst.sub, "concrete_structure": r.inst.params,
                        "symbolic": spec.get("symbolic", ""), "verdict": r.verdict,
                        "vccs": r.stats.get("vccs"), "variables": r.stats.get("variables"), "clauses": r.stats.get("clauses")})
    for v in vc_results[:6]:
        samples.append({"mir_vc": v["name"], "function": v.get("function"), "verdict": v["verdict"],
                        "queries": v.get("queries"), "paths": v.get("paths")})
    level = spec.get("level", "model_checking")
    cov = {
        "evaluations": len(results) + sum(v.get("queries", 0) for v in vc_results),
        "distinct_nontrivial": nontrivial,
        "rule": spec.get("rule", "one evaluation = one solver-decided instance: a harness family applied to one concrete "
                                 "structure (sizes, shapes, fuzz level, direction) with all contents/positions symbolic; "
                                 "non-trivial = distinct instance that returned SUCCESSFUL with >0 verification conditions left "
                                 "after simplification and with its cover witnesses satisfied"),
        "samples": samples or [{"note": "no instance ran"}],
        "explanation": spec.get("explanation", ""),
        "functions_encoded": spec.get("functions", []),
        "bounds": spec.get("bounds", {}),
        "outside_claim": spec.get("outside", []),
        "engine": spec.get("engine", "Kani 0.68 / CBMC 6.11 (cadical) on an overlay build of /repo's working tree"),
        "instances_total": len(results),
        "instances_verified": n_ok,
        "instances_inconclusive": sum(1 for r in results if r.verdict == K.INCONCLUSIVE),
        "mir_vcs_total": len(vc_results),
        "mir_vcs_hold": n_vc_ok,
        "properties_checked_by_cbmc": tot_checks,
        "vccs_generated": tot_vcc,
        "symex_time_s": round(symex_s, 1),
        "solver_time_s": round(solver_s, 1),
        "peak_rss_mb": max([r.max_rss_mb for r in results] or [0]),
        "instances": inst_json,
        "mir_vcs": vc_results,
        "known_findings_reported": sorted(set(kf_lines)),
        "confirmed_violations": [c.get("path") for c in confirmed],
        "inconclusive": inconclusive,
        "undecided_resource_limit": list(undecided),
        "skipped_quick_time_budget": list(skipped),
        "exhaustive": False,
    }
    ev = {
        "property_id": pid, "tier": tier, "seed": seed, "level": level,
        "coverage": cov,
        "assumptions": spec.get("assumptions", []),
        "wall_s": round(wall, 1),
        "violations": len(confirmed),
    }
    with open(os.path.join(EVID, "%s.json" % pid), "w") as f:
        json.dump(ev, f, indent=1)
