"""Scenario replays through the real binary for Engine B candidates.

A candidate produced by a MIR-level VC says "the code no longer has the shape the lemma needs".  Before it is
reported, the real binary (built from /repo's current tree) is run on the property's scenario scripts:
/verif/findings/<PID>_*.sh (recorded counter-workspaces of earlier findings) and /verif/scenarios/<PID>_*.sh
(generated workspaces with an oracle for the property).  A script exits 0 when the property holds on its
workspace.  Only a failing script makes the candidate a VIOLATION; otherwise the check exits 2 (inconclusive)
and prints the candidate."""
import glob
import os
import subprocess

from . import native, overlay as ov


def scripts_for(pid):
    out = []
    for d in ("findings", "scenarios"):
        out += sorted(glob.glob(os.path.join(ov.VERIF, d, "%s_*.sh" % pid)))
    return out


def replay_for(pid, v, work, log):
    res = {"reproduced": False, "name": v.get("name"), "path": None, "why": "", "tags": []}
    try:
        binary = native.build_binary(work, log)
    except Exception as e:
        res["why"] = "native build failed: %s" % str(e)[:300]
        return res
    ran = 0
    for s in scripts_for(pid):
        ran += 1
        try:
            p = subprocess.run(["bash", s, binary], capture_output=True, text=True, timeout=600)
        except subprocess.TimeoutExpired:
            continue
        log("    scenario %-50s exit=%d %s" % (os.path.basename(s), p.returncode, (p.stdout.strip().split("\n") or [""])[-1][:120]))
        if p.returncode != 0:
            res.update(reproduced=True, path=s, what="%s: %s" % (os.path.basename(s), (p.stdout + p.stderr).strip()[-300:]),
                       tags=[os.path.basename(s)])
            return res
    gen = os.path.join(ov.VERIF, "scenarios", "run.py")
    if os.path.exists(gen):
        ran += 1
        try:
            p = subprocess.run(["python3", gen, pid, binary], capture_output=True, text=True, timeout=1500)
            log("    scenario generator run.py %s exit=%d %s" % (pid, p.returncode, (p.stdout.strip().split("\n") or [""])[0][:160]))
            if p.returncode != 0:
                d = os.path.join(ov.VERIF, "replays", pid)
                os.makedirs(d, exist_ok=True)
                path = os.path.join(d, "scenario_%s.txt" % pid)
                with open(path, "w") as f:
                    f.write("python3 /verif/scenarios/run.py %s <binary built from /repo>\n\n%s" % (pid, p.stdout[-4000:]))
                res.update(reproduced=True, path=path, what=(p.stdout.strip().split("\n") or [""])[0][:300], tags=["scenario"])
                return res
        except subprocess.TimeoutExpired:
            pass
    cands = "; ".join(c.get("what", "") for c in v.get("candidates", [])[:3])
    res["why"] = "%d scenario script(s) ran, none violated %s through the real binary; candidate: %s" % (ran, pid, cands[:300])
    return res
