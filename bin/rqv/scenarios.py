"""Scenario replays through the real binary for Engine B candidates (placeholder: filled in below)."""
import os


def replay_for(pid, v, work, log):
    return {"reproduced": False, "name": v.get("name"), "path": None,
            "why": "no scenario reproduced a violation of %s through the real binary" % pid, "tags": []}
