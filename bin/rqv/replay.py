"""Native replay of counterexamples against the real code (real Vec / HashMap, real memchr).

Kani path: re-run the failing harness with concrete playback, take the generated unit test,
and execute it with `cargo kani playback` on a *replay overlay* built without the
`verif_containers` feature and without the memchr stand-in.  Only what reproduces is reported.
"""
import json
import os
import re
import shutil
import subprocess
import time

from . import kani as K
from . import overlay as ov

REPLAYS = os.path.join(ov.VERIF, "replays")

PLAYBACK_RE = re.compile(r"Concrete playback unit test for `([^`]+)`:\s*```\s*(.*?)```", re.S)


def _env(gen):
    env = dict(os.environ)
    env.update(K.KANI_ENV)
    env["VERIF_GEN"] = gen
    env["VERIF_CAP"] = "6"
    return env


def native_playback(ovdir, gen, testname, target, tdir, logpath, release=False, timeout=900):
    """Run one generated concrete-playback test natively.  Returns (failed: bool|None, text)."""
    env = _env(gen)
    env["CARGO_TARGET_DIR"] = tdir
    cmd = ["cargo", "kani", "playback", "-Z", "concrete-playback"]
    cmd += ["--lib"] if target == "lib" else ["--bin", "rapidquilt"]
    cmd += ["--", testname, "--exact", "--nocapture"] if False else ["--", testname]
    try:
        p = subprocess.run(cmd, cwd=ovdir, env=env, capture_output=True, text=True, timeout=timeout, errors="replace")
        txt = p.stdout + p.stderr
    except subprocess.TimeoutExpired as e:
        txt = "TIMEOUT\n" + str(e.stdout or "") + str(e.stderr or "")
    with open(logpath, "w") as f:
        f.write("# " + " ".join(cmd) + "\n" + txt)
    m = re.search(r"test result: (\w+)\. (\d+) passed; (\d+) failed", txt)
    if not m:
        return None, txt
    if int(m.group(2)) + int(m.group(3)) == 0:
        return None, txt + "\n(no test matched)"
    return (int(m.group(3)) > 0), txt


def replay_kani(pid, res, work, log):
    """res: a failed kani Result.  Returns dict(reproduced, path, what, tags, name)."""
    inst = res.inst
    out = {"reproduced": False, "name": inst.name, "path": None, "what": "", "tags": []}
    ovdir = os.path.join(work, "ov")
    gen = os.path.join(work, "gen")
    if getattr(inst, "sweep", None):
        # families whose solver trace rarely fits in memory come with a native sweep of the same construction: try it first (a minute)
        log("  replaying %s: native sweep %s first ..." % (inst.name, inst.sweep[1]))
        v = {"name": inst.name, "candidates": [{"what": "; ".join(fc["desc"] for fc in res.failed_checks[:3])}]}
        rep = replay_by_sweep(pid, v, work, log, module=inst.sweep[0], testname=inst.sweep[1])
        if rep["reproduced"]:
            rep["name"] = inst.name
            return rep
    log("  replaying %s: extracting concrete values ..." % inst.name)
    import copy
    pinst = copy.copy(inst)
    pinst.mem_gb = max(24, int(inst.mem_gb * 2.5))      # trace generation needs far more memory than the verdict
    pinst.timeout_s = max(3600, inst.timeout_s * 3)
    r2 = K.run_instance(pinst, ovdir, gen, work, os.path.join(work, "logs"), playback=True)
    txt = getattr(r2, "text", "")
    shutil.rmtree(getattr(r2, "target_dir", "/nonexistent"), ignore_errors=True)
    tests = [mm.group(2).strip() for mm in PLAYBACK_RE.finditer(txt)]
    # Kani also emits one test per satisfied cover: keep the ones generated for failed checks
    tests = [t for t in tests if not re.search(r"/// Check for `cover`", t)]
    if not tests:
        out["why"] = "no concrete playback test generated (%s %s)" % (r2.verdict, r2.reason)
        return out
    # prefer a test for a check located in the repository / harness oracle over std-internal ones
    test_src = tests[0]
    tm = re.search(r"fn (kani_concrete_playback_\w+)", test_src)
    testname = tm.group(1)
    d = os.path.join(REPLAYS, pid)
    os.makedirs(d, exist_ok=True)
    path = os.path.join(d, inst.name + ".rs")
    descs = "; ".join("%s @ %s:%s" % (fc["desc"], fc["file"], fc["line"]) for fc in res.failed_checks[:4])
    with open(path, "w") as f:
        f.write("// Counterexample for property %s, harness instance `%s` (%s).\n" % (pid, inst.name, inst.sub))
        f.write("// Failed check(s): %s\n" % descs)
        f.write("// Structure: %s\n" % json.dumps(inst.params))
        f.write("// Replay: python3 /verif/bin/check.py %s --replay %s\n" % (pid, path))
        f.write("// module: %s target: %s\n" % (inst.module, inst.target))
        if inst.unwind_is_violation:
            f.write("// termination-claim: a native run that does not finish within 120 s reproduces the violation\n")
        f.write("// --- instance (generated) ---\n")
        f.write(inst.rust())
        f.write("// --- concrete values found by the solver ---\n")
        f.write(test_src + "\n")
    out["path"] = path
    out["what"] = descs
    ok, why, tags = run_replay_file(pid, path, work, log)
    out["reproduced"] = ok
    out["why"] = why
    out["tags"] = tags
    return out


def run_replay_file(pid, path, work, log):
    """Execute a saved replay file natively on a fresh replay overlay of /repo's current tree."""
    with open(path) as f:
        src = f.read()
    m = re.search(r"// --- instance \(generated\) ---\n(.*?)// --- concrete values found by the solver ---\n(.*)", src, re.S)
    if not m:
        return False, "malformed replay file", []
    inst_src, test_src = m.group(1), m.group(2)
    tm = re.search(r"fn (kani_concrete_playback_\w+)", test_src)
    testname = tm.group(1)
    # which module does the instance live in?  encoded in the header
    mm = re.search(r"^// module: (\w+) target: (\w+)", src, re.M)
    module, target = (mm.group(1), mm.group(2)) if mm else guess_module(inst_src)
    rov = os.path.join(work, "ov_replay")
    rgen = os.path.join(work, "gen_replay")
    shutil.rmtree(rov, ignore_errors=True)
    shutil.rmtree(rgen, ignore_errors=True)
    try:
        ov.make_overlay(rov, modules=[module], real_memchr=True)
    except ov.OverlayError as e:
        return False, "replay overlay: %s" % e, []
    os.makedirs(rgen)
    for mname in ("patch", "patchpriv", "parser", "rej", "lines", "parallel", "common"):
        with open(os.path.join(rgen, "%s_inst.rs" % mname), "w") as f:
            if mname == module:
                # stubs are a solver-side device: the native run uses the real functions
                f.write(re.sub(r"#\[kani::stub\([^\n]*\)\]\n", "", inst_src))
                f.write("\n" + test_src + "\n")
    from .runner import write_kf_consts
    write_kf_consts(rgen, pid)
    tdir = os.path.join(work, "t_replay")
    K.seed_target(tdir, "replay-" + target, False)
    term_claim = "// termination-claim:" in src
    failed, txt = native_playback(rov, rgen, testname, target, tdir, os.path.join(work, "replay_%s.log" % testname),
                                  timeout=(180 if term_claim else 900))
    if term_claim and txt.startswith("TIMEOUT"):
        log("  reproduced natively: the generated test does not terminate within the time limit")
        return True, "does not terminate (stated line far behind the end of the file)", []
    tags = []
    pm = re.search(r"panicked at ([^\n]*)\n([^\n]*)", txt)
    msg = (pm.group(1) + " " + pm.group(2)) if pm else ""
    if failed is None:
        keep = os.path.join(REPLAYS, pid, "logs")
        os.makedirs(keep, exist_ok=True)
        with open(os.path.join(keep, "replay_%s.log" % testname), "w") as f:
            f.write(txt[-100000:])
        return False, "native playback did not run (see replays/%s/logs)" % pid, tags
    if failed and ("Not enough det vals" in txt or "concrete_playback.rs" in msg):
        return False, "native run diverged from the solver's trace (asked for more nondeterministic values): stand-in or stub disagrees with the real code", tags
    if failed:
        log("  reproduced natively (dev profile): %s" % msg[:200])
        return True, msg, tags
    return False, "generated test passes natively: the encoding, a stand-in or a stub disagrees with the real code", tags


def guess_module(inst_src):
    # families are prefixed by property family names; the driver records the module in the header when known
    return "patch", "lib"


def replay_mir(pid, v, work, log, mod):
    """Engine B candidates are replayed by the property module (real binary on a generated workspace)."""
    fn = getattr(mod, "replay_candidate", None)
    if fn is None:
        return {"reproduced": False, "name": v.get("name"), "why": "no replay procedure for this VC", "path": None}
    return fn(v, work, log)


def replay_known(pid, entry, work, log, mod):
    """Replay a recorded known finding natively; True if it still fails."""
    fn = getattr(mod, "replay_known", None)
    if fn is not None:
        return fn(entry, work, log)
    path = entry.get("replay")
    if path and os.path.exists(os.path.join(ov.VERIF, path)):
        ok, why, tags = run_replay_file(pid, os.path.join(ov.VERIF, path), work, log)
        return ok
    return False


def native_sweep(pid, work, log, module="patch", testname="replay_sweep_multi_hunk", target="lib", timeout=1800):
    """Run a plain #[test] of a harness module natively (real containers, real memchr) on /repo's current tree.
    Returns (failed: bool|None, text)."""
    rov = os.path.join(work, "ov_sweep")
    rgen = os.path.join(work, "gen_sweep")
    shutil.rmtree(rov, ignore_errors=True)
    shutil.rmtree(rgen, ignore_errors=True)
    try:
        ov.make_overlay(rov, modules=[module], real_memchr=True)
    except ov.OverlayError as e:
        return None, "overlay: %s" % e
    os.makedirs(rgen)
    for mname in ("patch", "patchpriv", "parser", "rej", "lines", "parallel", "common"):
        open(os.path.join(rgen, "%s_inst.rs" % mname), "w").close()
    from .runner import write_kf_consts
    write_kf_consts(rgen, pid)
    tdir = os.path.join(work, "t_sweep")
    K.seed_target(tdir, "replay-" + target, False)
    failed, txt = native_playback(rov, rgen, testname, target, tdir, os.path.join(work, "sweep_%s.log" % testname), timeout=timeout)
    return failed, txt


def replay_by_sweep(pid, v, work, log, module="patch", testname="replay_sweep_multi_hunk"):
    res = {"reproduced": False, "name": v.get("name"), "path": None, "why": "", "tags": []}
    failed, txt = native_sweep(pid, work, log, module, testname)
    if failed:
        m = re.search(r"panicked at [^\n]*\n([^\n]*)", txt)
        msg = m.group(1) if m else "native sweep failed"
        d = os.path.join(REPLAYS, pid)
        os.makedirs(d, exist_ok=True)
        path = os.path.join(d, "sweep_%s.txt" % testname)
        with open(path, "w") as f:
            f.write("native test %s (harness/*.rs) on /repo's current tree, real Vec:\n%s\n" % (testname, msg[:4000]))
        log("  reproduced natively by the sweep: %s" % msg[:300])
        res.update(reproduced=True, path=path, what=msg[:400], tags=["sweep"])
    elif failed is None:
        res["why"] = "native sweep did not run: %s" % txt[-300:]
    else:
        cands = "; ".join(c.get("what", "") for c in v.get("candidates", [])[:2])
        res["why"] = "the native sweep %s (random cases against the reference, real containers) found no violating input; candidate: %s" % (testname, cands[:300])
    return res
