"""Engine B — `mirvc`: bounded symbolic execution of the nightly MIR dump of the driver glue.

The MIR text (`cargo +nightly rustc -- -Zunpretty=mir -C overflow-checks=on`, regenerated from
/repo's working tree on every run) is parsed into basic blocks and executed forward.  Integers
are bit-vectors of their Rust width, bools are Bools, enums are (discriminant, payload fields),
references are handles to abstract objects, everything else is opaque.  Calls are havoc'd
(fresh result, `&mut` arguments invalidated) except for a short table of models.  Three kinds
of verification condition are discharged with z3 (and cross-checked with cvc5):

  safety   every MIR `assert` (overflow / bounds) and every modelled call precondition
           (`Index<Range>`: start <= end <= len) in the function holds on every path;
  guard    no call matching a pattern is reachable on a path whose condition is satisfiable
           together with a stated condition (e.g. config.dry_run == true);
  order    on every path reaching a call matching B (under a stated condition) a call
           matching A has happened before and its error branch returned.

Havoc over-approximates: `unsat` is sound for the modelled semantics inside the unrolling
bound, `sat` is only a candidate that the property's replay procedure must reproduce with the
real binary before it is reported.
"""
import os
import re
import shutil
import subprocess
import time

import z3

from . import overlay as ov

UNROLL = int(os.environ.get("VERIF_MIR_UNROLL", "2"))          # visits of a block per path (3 in the thorough tier)
MAX_STATES = 200000

INT_W = {"usize": 64, "isize": 64, "u64": 64, "i64": 64, "u32": 32, "i32": 32, "u16": 16, "i16": 16,
         "u8": 8, "i8": 8, "u128": 128, "i128": 128, "char": 32}
SIGNED = {"isize", "i64", "i32", "i16", "i8", "i128"}

STD_VARIANTS = {"None": 0, "Some": 1, "Ok": 0, "Err": 1, "Continue": 0, "Break": 1,
                "Borrowed": 0, "Owned": 1, "Less": -1, "Equal": 0, "Greater": 1,
                "Occupied": 0, "Vacant": 1}


# ------------------------------------------------------------------------------------------ MIR
class Fn:
    def __init__(self, name, sig):
        self.name = name
        self.sig = sig
        self.types = {}     # local -> type string
        self.blocks = {}    # bb -> list of statement strings (last = terminator)
        self.nparams = 0
        self.debug = {}     # debug name -> place string


def dump_mir(work, target="bin", log=None):
    """MIR text of the current /repo tree (scratch copy; nothing is written under /repo)."""
    src = os.path.join(work, "mir_src")
    if not os.path.exists(src):
        os.makedirs(src)
        shutil.copytree(os.path.join(ov.REPO, "src"), os.path.join(src, "src"))
        for f in ("Cargo.toml", "Cargo.lock"):
            shutil.copy(os.path.join(ov.REPO, f), os.path.join(src, f))
        with open(os.path.join(src, "Cargo.toml"), "a") as f:
            f.write("\n[workspace]\n")
    tdir = os.path.join(work, "mir_target")
    cache = os.path.join(ov.VERIF, ".cache", "target-mir")
    if not os.path.exists(tdir) and os.path.isdir(cache):
        subprocess.run(["cp", "-a", cache, tdir], check=True)
    out = os.path.join(work, "%s.mir" % target)
    env = dict(os.environ)
    env["CARGO_NET_OFFLINE"] = "true"
    main = "src/rapidquilt/main.rs" if target == "bin" else "src/libpatch/lib.rs"
    os.utime(os.path.join(src, main))
    cmd = ["cargo", "+nightly", "rustc", "--offline", "--target-dir", tdir]
    cmd += ["--bin", "rapidquilt"] if target == "bin" else ["--lib"]
    cmd += ["--", "-Zunpretty=mir", "-C", "debug-assertions=off", "-C", "overflow-checks=on"]
    t0 = time.time()
    with open(out, "w") as fo:
        p = subprocess.run(cmd, cwd=src, env=env, stdout=fo, stderr=subprocess.PIPE, text=True)
    if p.returncode != 0 or os.path.getsize(out) == 0:
        raise RuntimeError("MIR dump failed: %s" % p.stderr[-2000:])
    if log:
        log("  MIR dump (%s): %.0fs, %d bytes" % (target, time.time() - t0, os.path.getsize(out)))
    with open(out) as f:
        return f.read()


PROMOTED = {}   # 'path::promoted[N]' -> variant name (unit enum constants), refreshed by parse_mir


NAMED_CONSTS = {}


def parse_mir(text):
    fns = {}
    cur = None
    bb = None
    PROMOTED.clear()
    for m in re.finditer(r"^const (\S.*?::promoted\[\d+\]): &[^=]* = \{\n(.*?)^\}", text, re.S | re.M):
        vm = re.search(r"_1 = (?:[\w:<>', ]*::)?(\w+);", m.group(2))
        if vm:
            PROMOTED[m.group(1)] = vm.group(1)
    NAMED_CONSTS.clear()
    for m in re.finditer(r"^const ([\w:]+): (\w+) = const (-?\d+)_(\w+);$", text, re.M):
        NAMED_CONSTS[m.group(1).split("::")[-1]] = (int(m.group(3)), m.group(4))
    for raw in text.split("\n"):
        if raw.startswith("fn "):
            m = re.match(r"fn (.+?)\((.*)\) -> (.*) \{$", raw)
            if not m:
                cur = None
                continue
            cur = Fn(m.group(1), raw)
            fns.setdefault(cur.name, cur)
            # parameter types
            for pm in re.finditer(r"(_\d+): ", m.group(2)):
                cur.nparams += 1
            params = split_top(m.group(2))
            for p in params:
                if ": " in p:
                    k, t = p.split(": ", 1)
                    cur.types[k.strip()] = t.strip()
            cur.types["_0"] = m.group(3).strip()
            bb = None
            continue
        if cur is None:
            continue
        if raw == "}":
            cur = None
            continue
        s = raw.strip()
        m = re.match(r"let (?:mut )?(_\d+): (.*);$", s)
        if m and bb is None:
            cur.types[m.group(1)] = m.group(2)
            continue
        m = re.match(r"debug (\w+) => (.*);$", s)
        if m:
            cur.debug[m.group(1)] = m.group(2)
            continue
        m = re.match(r"(bb\d+)(?: \(cleanup\))?: \{$", s)
        if m:
            bb = m.group(1)
            cur.blocks[bb] = []
            continue
        if s == "}":
            bb = None if raw.startswith("    }") else bb
            continue
        if bb is not None and s:
            cur.blocks[bb].append(s.rstrip(";"))
    return fns


def split_top(s, sep=","):
    """Split at top-level separators (ignoring nesting in (), [], {}, <>)."""
    out, depth, cur, i = [], 0, "", 0
    while i < len(s):
        c = s[i]
        if c in "([{":
            depth += 1
        elif c in ")]}":
            depth -= 1
        elif c == "<":
            depth += 1
        elif c == ">" and i > 0 and s[i - 1] != "-" and s[i - 1] != "=":
            depth -= 1
        if c == sep and depth == 0:
            out.append(cur.strip())
            cur = ""
        else:
            cur += c
        i += 1
    if cur.strip():
        out.append(cur.strip())
    return out


def enum_variants_from_source():
    """variant name -> index for the repository's own enums (declaration order)."""
    table = dict(STD_VARIANTS)
    for root, _, files in os.walk(os.path.join(ov.REPO, "src")):
        for f in files:
            if not f.endswith(".rs"):
                continue
            txt = open(os.path.join(root, f), errors="replace").read()
            for m in re.finditer(r"enum\s+(\w+)(?:<[^>]*>)?\s*\{(.*?)\n\}", txt, re.S):
                body = re.sub(r"//[^\n]*", "", m.group(2))
                body = re.sub(r"#\[[^\]]*\]", "", body)
                idx = 0
                for part in split_top(body):
                    vm = re.match(r"(\w+)", part.strip())
                    if vm:
                        table.setdefault(vm.group(1), idx)
                        idx += 1
    return table


def variant_field_index(enum, variant, field):
    """index of a named field inside a struct-like enum variant (declaration order), read from the repository's source."""
    for root, _, files in os.walk(os.path.join(ov.REPO, "src")):
        for f in files:
            if not f.endswith(".rs"):
                continue
            txt = open(os.path.join(root, f), errors="replace").read()
            m = re.search(r"enum\s+%s(?:<[^>]*>)?\s*\{(.*?)\n\}" % re.escape(enum), txt, re.S)
            if not m:
                continue
            vm = re.search(r"\b%s\s*\{(.*?)\}" % re.escape(variant), re.sub(r"//[^\n]*", "", m.group(1)), re.S)
            if not vm:
                continue
            names = [re.match(r"\s*(\w+)\s*:", p_) for p_ in split_top(vm.group(1))]
            names = [n.group(1) for n in names if n]
            if field in names:
                return names.index(field)
    return None


def struct_field_index(struct, field):
    for root, _, files in os.walk(os.path.join(ov.REPO, "src")):
        for f in files:
            if not f.endswith(".rs"):
                continue
            txt = open(os.path.join(root, f), errors="replace").read()
            m = re.search(r"struct\s+%s(?:<[^>]*>)?\s*\{(.*?)\n\}" % re.escape(struct), txt, re.S)
            if m:
                body = re.sub(r"//[^\n]*", "", m.group(1))
                body = re.sub(r"#\[[^\]]*\]", "", body)
                names = []
                for part in split_top(body):
                    fm = re.match(r"(?:pub(?:\([^)]*\))?\s+)?(\w+)\s*:", part.strip())
                    if fm:
                        names.append(fm.group(1))
                if field in names:
                    return names.index(field)
    return None


# ------------------------------------------------------------------------------------------ values
class Ref:
    __slots__ = ("target",)

    def __init__(self, target):
        self.target = target

    def __repr__(self):
        return "&%s" % self.target


class Agg:
    """Aggregate value: explicit fields live in the store under the holder's path; unknown fields
    are materialised lazily from `base` so that copies agree on them."""
    __slots__ = ("base",)

    def __init__(self, base):
        self.base = base

    def __repr__(self):
        return "agg#%s" % self.base


def is_scalar_type(t):
    return t == "bool" or t in INT_W


class State:
    def __init__(self):
        self.store = {}      # path -> z3 expr | Ref | Agg
        self.pc = []         # list of z3 Bool
        self.ghost = frozenset()
        self.visits = {}
        self.trace = []

    def clone(self):
        s = State()
        s.store = dict(self.store)
        s.pc = list(self.pc)
        s.ghost = self.ghost
        s.visits = dict(self.visits)
        s.trace = list(self.trace)
        return s


class Engine:
    def __init__(self, fns, fn, variants, models=None, hooks=None, unroll=UNROLL, track_all=True):
        self.fns = fns
        self.fn = fn
        self.variants = variants
        self.hooks = hooks or {}
        self.unroll = unroll
        self.solver = z3.Solver()
        self.solver.set("timeout", 20000)
        self.lazy = {}           # (base, subpath) -> value
        self.inputs = {}         # name -> z3 symbol (named inputs, reported in models)
        self.queries = 0
        self.solver_s = 0.0
        self.states = 0
        self.paths = 0
        self.findings = []       # dict(kind, bb, stmt, model, trace)
        self.seen = set()
        self.smt2 = []           # (label, smt2 text) for the cross-check
        self.truncated = False
        self.fresh_n = 0
        self.tracked = None
        self.tracked_fields = {}
        self.seeds = None
        self.contracts = []      # (callee regex, fn) assume-guarantee post-conditions, each proved elsewhere or stated
        self.pure_calls = []     # (callee regex, result type): uninterpreted pure functions of their arguments' identity

    # ---------------------------------------------------------------- relevance slicing
    MODELLED = re.compile(r"(::len$|as Deref>::deref$|as DerefMut>::deref_mut$|as AsRef<.*>>::as_ref$|::as_slice$|::as_path$|cmp::min::|cmp::max::|"
                          r"::saturating_sub$|::saturating_add$|::max_value$|as Try>::branch$|as FromResidual<.*>>::from_residual$|as Iterator>::position::<|"
                          r"::iter$|as Index<.*>>::index$|as IntoIterator>::into_iter$|as Iterator>::enumerate$|as Iterator>::next$|as Partial(Eq|Ord)>::(eq|ne|ge|gt|le|lt)$|"
                          r"Option::<\w+>::unwrap_or$|Option::<\w+>::unwrap_or_default$|Range<usize> as IntoIterator>::into_iter$|Range<usize> as Iterator>::next$|RangeInclusive::<usize>::new$|RangeInclusive<usize> as IntoIterator>::into_iter$)")

    def compute_tracked(self, seeds, extra_modelled=None):
        """Locals (and, for aggregates built once by an aggregate rvalue, individual fields) whose
        values matter for the VC: backward data closure of the seed locals through assignments
        and *modelled* calls (a havoc'd call result does not depend on its arguments), plus the
        closure of every branch / assert condition that touches a tracked value."""
        assigns = {}
        field_ops = {}
        for bb, stmts in self.fn.blocks.items():
            for s in stmts:
                m = re.match(r"(_\d+) = (.*)$", s)
                if m:
                    assigns[m.group(1)] = assigns.get(m.group(1), 0) + 1
                    rhs = m.group(2)
                    am = re.match(r"(.*?) \{ (.*) \}$", rhs)
                    parts = None
                    if am and not rhs.startswith("const") and "->" not in rhs:
                        parts = [p.split(": ", 1)[1] if ": " in p else p for p in split_top(am.group(2))]
                    elif rhs.startswith("(") and rhs.endswith(")") and matching(rhs, 0) == len(rhs) - 1 and "," in rhs and "->" not in rhs:
                        parts = split_top(rhs[1:-1])
                    if parts is not None:
                        field_ops[m.group(1)] = [set(re.findall(r"_\d+", p)) for p in parts]
                m = re.match(r"\((_\d+)[.@ ]", s)
                if m and " = " in s:
                    assigns[m.group(1)] = assigns.get(m.group(1), 0) + 2   # partial writes: not eligible
        eligible = {a for a in field_ops if assigns.get(a, 0) == 1}

        def mentions(txt):
            nodes = set()
            def repl(mm):
                if mm.group(1) in eligible:
                    nodes.add((mm.group(1), int(mm.group(2))))
                    return "("
                return mm.group(0)
            rest = re.sub(r"\((_\d+)\.(\d+): ", repl, txt)
            for loc in re.findall(r"_\d+", rest):
                nodes.add(loc)
            return nodes

        deps = {}
        conds = []
        for bb, stmts in self.fn.blocks.items():
            for s in stmts:
                if s.startswith(("StorageLive", "StorageDead")):
                    continue
                m = re.match(r"switchInt\((.*?)\) -> ", s)
                if m:
                    conds.append(mentions(m.group(1)))
                    continue
                m = re.match(r"assert\((!?)(.*?), \"", s)
                if m:
                    conds.append(mentions(m.group(2)))
                    continue
                m = re.match(r"(\(.*?\)|_\d+) = (.*)$", s)
                if not m:
                    continue
                dst_locals = re.findall(r"_\d+", m.group(1))
                if not dst_locals:
                    continue
                root = dst_locals[0]
                rhs = m.group(2)
                if root in eligible and m.group(1) == root:
                    continue            # handled field-wise through field_ops
                pc_ = parse_call(s) if self.looks_like_call(s) else None
                if pc_:
                    callee = pc_[1].strip()
                    if self.MODELLED.search(callee) or (extra_modelled and (re.search(extra_modelled, callee) or re.search(extra_modelled, strip_gen(callee)))):
                        deps.setdefault(root, set()).update(mentions(pc_[2]))
                    else:
                        deps.setdefault(root, set())
                    continue
                deps.setdefault(root, set()).update(mentions(rhs))
                deps[root].update(dst_locals[1:])

        def node_deps(x):
            if isinstance(x, tuple):
                ops = field_ops[x[0]]
                return ops[x[1]] if x[1] < len(ops) else set()
            if x in eligible:
                out = set()
                for i in range(len(field_ops[x])):
                    out.add((x, i))
                return out
            return deps.get(x, ())

        def closure(start):
            out = set(start)
            work = list(start)
            while work:
                x = work.pop()
                for y in node_deps(x):
                    if y not in out:
                        out.add(y)
                        work.append(y)
            return out

        tracked = closure(mentions(" ".join(seeds)) if seeds else set())
        changed = True
        cl_cache = {}
        while changed:
            changed = False
            for c in conds:
                key = frozenset(c)
                if key not in cl_cache:
                    cl_cache[key] = closure(c)
                cl = cl_cache[key]
                if (cl & tracked) and not cl <= tracked:
                    tracked |= cl
                    changed = True
        self.tracked = {x for x in tracked if not isinstance(x, tuple)} | {x[0] for x in tracked if isinstance(x, tuple)}
        self.tracked_fields = {}
        for x in tracked:
            if isinstance(x, tuple):
                self.tracked_fields.setdefault(x[0], set()).add(x[1])
        for a in eligible:
            if a in tracked:                      # whole aggregate needed somewhere
                self.tracked_fields.pop(a, None)

    # ---------------------------------------------------------------- liveness
    def compute_liveness(self):
        """Backward dataflow over the MIR CFG: locals live at block entry.  A bare `_N = ...`
        destination is a definition; every other mention of `_N` is a use."""
        use, dfn, succ = {}, {}, {}
        # a borrowed local stays live as long as the reference does
        borrow = {}
        for bb, stmts in self.fn.blocks.items():
            for s in stmts:
                m = re.match(r"(_\d+) = &(?:raw (?:const|mut) )?(?:mut )?(.*)$", s)
                if m:
                    locs = re.findall(r"_\d+", m.group(2))
                    if locs:
                        borrow.setdefault(m.group(1), set()).add(locs[0])
        # references travel through copies, moves and aggregates (flow-insensitive fixpoint)
        changed_b = True
        while changed_b:
            changed_b = False
            for bb, stmts in self.fn.blocks.items():
                for s in stmts:
                    m = re.match(r"(_\d+) = (.*)$", s)
                    if not m or m.group(2).startswith("&"):
                        continue
                    for loc in re.findall(r"_\d+", m.group(2)):
                        if loc in borrow and not borrow[loc] <= borrow.get(m.group(1), set()):
                            borrow.setdefault(m.group(1), set()).update(borrow[loc])
                            changed_b = True

        def with_borrows(locs):
            out = set(locs)
            work = list(locs)
            while work:
                x = work.pop()
                for y in borrow.get(x, ()):
                    if y not in out:
                        out.add(y)
                        work.append(y)
            return out

        for bb, stmts in self.fn.blocks.items():
            u, d = set(), set()
            for s in stmts:
                if s.startswith(("StorageLive", "StorageDead")):
                    continue
                m = re.match(r"(_\d+) = (.*)$", s)
                rhs = s
                dst = None
                if m:
                    dst, rhs = m.group(1), m.group(2)
                for loc in with_borrows(re.findall(r"_\d+", rhs)):
                    if loc not in d:
                        u.add(loc)
                if dst is not None:
                    d.add(dst)
            use[bb], dfn[bb] = u, d
            succ[bb] = [t for t in re.findall(r"bb\d+", stmts[-1])] if stmts else []
            # unwind edges are not followed by the executor
            if stmts:
                last = stmts[-1]
                um = re.search(r"unwind: (bb\d+)", last)
                if um and um.group(1) in succ[bb]:
                    succ[bb] = [t for t in succ[bb] if t != um.group(1)] + ([um.group(1)] if len(re.findall(um.group(1), last)) > 1 else [])
        # a local whose address escapes into an aggregate (e.g. the argument tuple of format_args!) is never pruned
        escaped = set()
        for bb, stmts in self.fn.blocks.items():
            for s in stmts:
                if re.match(r"(_\d+) = &(?:raw (?:const|mut) )?(?:mut )?_\d+$", s):
                    continue
                for loc in re.findall(r"&(?:raw (?:const|mut) )?(?:mut )?(_\d+)\b", s):
                    escaped.add(loc)
        self.escaped = escaped
        live = {bb: set() for bb in self.fn.blocks}
        changed = True
        while changed:
            changed = False
            for bb in self.fn.blocks:
                out = set()
                for t in succ[bb]:
                    out |= live.get(t, set())
                new = use[bb] | (out - dfn[bb])
                if new != live[bb]:
                    live[bb] = new
                    changed = True
        self.live_in = live

    def prune(self, bb, st):
        """Drop dead locals and unreachable abstract objects from the store."""
        live = self.live_in.get(bb)
        if live is None:
            return
        live = live | {"_0"} | getattr(self, "escaped", set())
        keep = {}
        roots = []
        for k, v in st.store.items():
            m = re.match(r"(_\d+)", k)
            if m and k.startswith("_"):
                if m.group(1) in live:
                    keep[k] = v
                    roots.append(v)
            elif k.startswith("ghost:") or k.startswith("prom:"):
                keep[k] = v
                roots.append(v)
        # abstract objects reachable through refs
        changed = True
        reach = set()
        work = list(roots)
        while work:
            v = work.pop()
            if isinstance(v, Ref):
                t = v.target
                base = re.split(r"[.@#\[]", t)[0] if not t.startswith("_") else None
                if base and base not in reach:
                    reach.add(base)
                    for k2, v2 in st.store.items():
                        if k2.startswith(base) and k2 not in keep and not k2.startswith("_"):
                            keep[k2] = v2
                            work.append(v2)
        st.store = keep

    # ---------------------------------------------------------------- symbols
    def sym(self, name, ty):
        if ty == "bool":
            return z3.Bool(name)
        if ty in INT_W:
            return z3.BitVec(name, INT_W[ty])
        return None

    def fresh_for_type(self, name, ty):
        ty = ty.strip()
        v = self.sym(name, ty)
        if v is not None:
            return v
        if ty.startswith("&") or ty.startswith("*const") or ty.startswith("*mut") or ty.startswith("Box<"):
            return Ref("obj:" + name)
        return Agg(name)

    # ---------------------------------------------------------------- places
    def parse_place(self, s):
        """-> (root local, [proj...]) with proj = ('deref',) | ('field', k, ty) | ('variant', name) | ('index',)"""
        s = s.strip()
        if re.fullmatch(r"_\d+", s):
            return s, []
        if s.startswith("(") and s.endswith(")") and matching(s, 0) == len(s) - 1:
            inner = s[1:-1]
            if inner.startswith("*"):
                r, p = self.parse_place(inner[1:])
                return r, p + [("deref",)]
            # (place as Variant)
            m = re.match(r"(.*) as (\w+)$", inner)
            if m and balanced(m.group(1)):
                r, p = self.parse_place(m.group(1))
                return r, p + [("variant", m.group(2))]
            # (place.k: type)
            j = find_field_split(inner)
            if j is not None:
                base, k, ty = j
                r, p = self.parse_place(base)
                return r, p + [("field", k, ty)]
        m = re.match(r"(.*)\[(.*)\]$", s)
        if m:
            r, p = self.parse_place(m.group(1))
            return r, p + [("index", m.group(2))]
        raise ValueError("unparsed place: %s" % s)

    def resolve(self, st, place, want_type=None):
        """canonical path and declared type of a place."""
        root, projs = self.parse_place(place)
        path = root
        ty = self.fn.types.get(root, "?")
        for pr in projs:
            if pr[0] == "deref":
                v = self.read_path(st, path, ty)
                if isinstance(v, Ref):
                    path = v.target
                else:
                    path = "deref(" + path + ")"
                ty = re.sub(r"^&(?:'\w+ )?(?:mut )?", "", ty) if ty.startswith("&") else "?"
            elif pr[0] == "field":
                path = path + "." + pr[1]
                ty = pr[2]
            elif pr[0] == "variant":
                path = path + "@" + pr[1]
            elif pr[0] == "index":
                path = path + "[]"
                ty = "?"
        return path, ty

    def read_path(self, st, path, ty):
        if path in st.store:
            return st.store[path]
        # lazily materialise from the enclosing aggregate's base (so copies agree), else by path
        holder, sub = path, ""
        while True:
            i = max(holder.rfind("."), holder.rfind("@"), holder.rfind("#"))
            if i <= 0:
                break
            holder, sub = holder[:i], holder[i:] + sub
            hv = st.store.get(holder)
            if hv is None and holder not in st.store:
                hv = self.lazy.get(("", holder))
            if isinstance(hv, Agg):
                key = (hv.base, sub)
                if key not in self.lazy:
                    self.lazy[key] = self.fresh_for_type("in_%s%s" % (hv.base, sub), ty)
                return self.lazy[key]
        key = ("", path)
        if key not in self.lazy:
            self.lazy[key] = self.fresh_for_type("in_" + path, ty)
        v = self.lazy[key]
        return v

    def write_path(self, st, path, val):
        # overwrite: forget explicit sub-entries
        for k in [k for k in st.store if k.startswith((path + ".", path + "@", path + "#"))]:
            del st.store[k]
        st.store[path] = val

    def copy_value(self, st, src_path, dst_path, ty):
        v = self.read_path(st, src_path, ty)
        subs = [(k, val) for k, val in st.store.items() if k.startswith((src_path + ".", src_path + "@", src_path + "#"))]
        self.write_path(st, dst_path, v)
        for k, val in subs:
            st.store[dst_path + k[len(src_path):]] = val

    def havoc_object(self, st, path, tag):
        pref = (path + ".", path + "@", path + "#")
        for k in [k for k in st.store if k == path or k.startswith(pref)]:
            del st.store[k]
        st.store[path] = Agg("hv_%s" % tag)

    # ---------------------------------------------------------------- operands
    def operand(self, st, s, ty_hint=None):
        s = s.strip()
        m = re.match(r"(?:copy|move|no_retag copy|no_retag move) (.+)$", s)
        if m:
            if self.tracked is not None:
                rl = re.search(r"_\d+", m.group(1))
                if rl and rl.group(0) not in self.tracked:
                    return None, None, "?"
            try:
                path, ty = self.resolve(st, m.group(1))
            except ValueError:
                return None, None, "?"
            return self.read_path(st, path, ty if ty != "?" else (ty_hint or "?")), path, ty
        m = re.match(r"const (-?\d+)_(\w+)$", s)
        if m and m.group(2) in INT_W:
            return z3.BitVecVal(int(m.group(1)), INT_W[m.group(2)]), None, m.group(2)
        m = re.match(r"const ([A-Za-z_][\w:]*)$", s)
        if m and m.group(1).split("::")[-1] in NAMED_CONSTS:
            v, t = NAMED_CONSTS[m.group(1).split("::")[-1]]
            if t in INT_W:
                return z3.BitVecVal(v, INT_W[t]), None, t
        if s == "const true":
            return z3.BoolVal(True), None, "bool"
        if s == "const false":
            return z3.BoolVal(False), None, "bool"
        return None, None, "?"

    # ---------------------------------------------------------------- solver
    def feasible(self, st, extra=()):
        conj = list(st.pc) + list(extra)
        if not conj:
            return True, None
        self.queries += 1
        t0 = time.time()
        self.solver.push()
        self.solver.add(*conj)
        r = self.solver.check()
        model = self.solver.model() if r == z3.sat else None
        self.solver.pop()
        self.solver_s += time.time() - t0
        if r == z3.unknown:
            raise RuntimeError("solver returned unknown")
        return r == z3.sat, model

    def record_query(self, label, conj):
        s = z3.Solver()
        s.add(*conj)
        self.smt2.append((label, "(set-logic ALL)\n" + s.to_smt2()))

    # ---------------------------------------------------------------- execution
    def key(self, bb, st):
        items = []
        for k in sorted(st.store):
            v = st.store[k]
            items.append((k, v.sexpr() if isinstance(v, z3.ExprRef) else repr(v)))
        pcs = sorted(c.sexpr() for c in st.pc)
        return (bb, tuple(items), tuple(pcs), st.ghost)

    def gc_pc(self, st):
        """Drop path-condition conjuncts whose symbols are all dead call results."""
        if not st.pc:
            return
        live = set()
        bases = set()
        for k, v in st.store.items():
            if isinstance(v, z3.ExprRef):
                live |= symbols(v)
            elif isinstance(v, Agg):
                bases.add(v.base)
            elif isinstance(v, Ref):
                bases.add(re.split(r"[.@#\[]", v.target)[0])
        # symbols lazily derived from live aggregates / objects stay live (they can be re-read)
        changed = True
        while changed:
            changed = False
            for (base, sub), lv in self.lazy.items():
                b = base if base else re.split(r"[.@#\[]", sub)[0]
                if b in bases or any(b.startswith(x + ".") or b.startswith(x + "@") for x in bases):
                    if isinstance(lv, z3.ExprRef):
                        ss = symbols(lv)
                        if not ss <= live:
                            live |= ss
                            changed = True
                    elif isinstance(lv, Agg) and lv.base not in bases:
                        bases.add(lv.base)
                        changed = True
                    elif isinstance(lv, Ref):
                        t = re.split(r"[.@#\[]", lv.target)[0]
                        if t not in bases:
                            bases.add(t)
                            changed = True
        keep = []
        conj_syms = [symbols(c) for c in st.pc]
        changed = True
        kept_idx = set(i for i, ss in enumerate(conj_syms) if any(self.is_param_sym(s) for s in ss) or (ss & live))
        while changed:
            changed = False
            pool = set(live)
            for i in kept_idx:
                pool |= conj_syms[i]
            for i, ss in enumerate(conj_syms):
                if i not in kept_idx and (ss & pool):
                    kept_idx.add(i)
                    changed = True
        st.pc = [c for i, c in enumerate(st.pc) if i in kept_idx]

    def is_param_sym(self, name):
        m = re.match(r"(?:in_|obj:)+_(\d+)(?!\d)", name)
        return bool(m) and 1 <= int(m.group(1)) <= self.fn.nparams

    def run(self, entry="bb0", init=None):
        st = State()
        self.compute_liveness()
        if self.seeds is not None:
            self.compute_tracked(self.seeds, getattr(self, "extra_modelled", None))
        if init:
            init(self, st)
        stack = [(entry, st)]
        while stack:
            bb, st = stack.pop()
            if self.states > MAX_STATES:
                self.truncated = True
                break
            self.prune(bb, st)
            self.gc_pc(st)
            k = self.key(bb, st)
            if k in self.seen:
                continue
            self.seen.add(k)
            self.states += 1
            n = st.visits.get(bb, 0)
            if n >= self.unroll:
                continue
            st.visits[bb] = n + 1
            st.trace.append(bb)
            for succ in self.exec_block(bb, st):
                stack.append(succ)

    def exec_block(self, bb, st):
        stmts = self.fn.blocks[bb]
        for idx, s in enumerate(stmts):
            site = "%s_%d_v%d" % (bb, idx, st.visits.get(bb, 1))
            hs = self.hooks.get("on_stmt")
            if hs:
                hs(self, st, bb, s)
            if s.startswith(("StorageLive", "FakeRead", "nop", "PlaceMention", "Retag", "AscribeUserType", "Coverage", "ConstEvalCounter", "Deinit", "BackwardIncompatibleDropHint")):
                continue
            m = re.match(r"StorageDead\((_\d+)\)$", s)
            if m:
                p = m.group(1)
                for k in [k for k in st.store if k == p or k.startswith((p + ".", p + "@", p + "#"))]:
                    del st.store[k]
                continue
            m = re.match(r"goto -> (bb\d+)$", s)
            if m:
                return [(m.group(1), st)]
            if s in ("return", "unreachable", "resume") or s.startswith(("resume", "unwind terminate", "terminate", "abort")):
                if s == "return":
                    self.paths += 1
                    h = self.hooks.get("on_return")
                    if h:
                        h(self, st, bb)
                return []
            m = re.match(r"drop\(.*\) -> \[return: (bb\d+)", s)
            if m:
                return [(m.group(1), st)]
            m = re.match(r"falseEdge -> \[real: (bb\d+)", s) or re.match(r"falseUnwind -> \[real: (bb\d+)", s)
            if m:
                return [(m.group(1), st)]
            m = re.match(r"assert\((!?)(.*?), \"(.*?)\"(.*)\) -> \[success: (bb\d+)", s)
            if m:
                c, _, _ = self.operand(st, m.group(2))
                if c is None or not z3.is_bool(c):
                    return [(m.group(5), st)]
                cond = z3.Not(c) if m.group(1) == "!" else c
                h = self.hooks.get("on_assert")
                if h:
                    h(self, st, bb, s, cond, m.group(3))
                st.pc.append(cond)
                return [(m.group(5), st)]
            m = re.match(r"switchInt\((.*?)\) -> \[(.*)\]$", s)
            if m:
                v, _, ty = self.operand(st, m.group(1))
                arms = [a.strip() for a in split_top(m.group(2))]
                out = []
                taken = []
                for a in arms:
                    kk, tgt = a.split(": ")
                    if v is None or isinstance(v, (Ref, Agg)):
                        out.append((tgt, st.clone()))
                        continue
                    if kk == "otherwise":
                        conds = [neq_const(v, x) for x in taken]
                        cond = z3.And(*conds) if conds else z3.BoolVal(True)
                    else:
                        cond = eq_const(v, int(kk))
                        taken.append(int(kk))
                    cond = z3.simplify(cond)
                    if z3.is_false(cond):
                        continue
                    s2 = st.clone()
                    if not z3.is_true(cond):
                        ok, _ = self.feasible(st, [cond])
                        if not ok:
                            continue
                        s2.pc.append(cond)
                    out.append((tgt, s2))
                return out
            # call terminators
            pc_ = parse_call(s) if self.looks_like_call(s) else None
            if pc_:
                dst, callee, args, nxt = pc_
                return self.do_call(st, bb, site, s, dst, callee.strip(), split_top(args), nxt)
            m = re.match(r"discriminant\((.*)\) = (\d+)$", s)
            if m:
                path, _ = self.resolve(st, m.group(1))
                st.store[path + "#disc"] = z3.BitVecVal(int(m.group(2)), 64)
                continue
            m = re.match(r"(\(.*\)|_\d+|\(\*_\d+\)) = (.*)$", s)
            if m:
                self.assign(st, m.group(1), m.group(2), site)
                continue
            # unknown statement: ignore
        return []

    def looks_like_call(self, s):
        return re.search(r"\) -> (\[return: bb\d+, unwind|unwind |bb\d+$)", s) is not None and not s.startswith(("drop(", "assert(", "switchInt("))

    # ---------------------------------------------------------------- assignment
    def assign(self, st, dst, rhs, site):
        if self.tracked is not None:
            rl = re.search(r"_\d+", dst)
            if rl and rl.group(0) not in self.tracked:
                return
        try:
            dpath, dty = self.resolve(st, dst)
        except ValueError:
            return
        try:
            self.assign_inner(st, dpath, dty, rhs.strip(), site)
        except ValueError:
            self.write_path(st, dpath, self.fresh_for_type("c_" + site, dty))

    def assign_inner(self, st, dpath, dty, rhs, site):
        # use
        m = re.match(r"(?:copy|move|no_retag copy|no_retag move) (.+)$", rhs)
        if m and balanced(m.group(1)) and " as " not in top_level(rhs):
            spath, sty = self.resolve(st, m.group(1))
            self.copy_value(st, spath, dpath, sty if sty != "?" else dty)
            return
        pm = re.match(r"const (.*::promoted\[\d+\])$", rhs)
        if pm:
            name = pm.group(1)
            hit = [k for k in PROMOTED if name.endswith(k)]
            if hit and PROMOTED[hit[0]] in self.variants:
                obj = "prom:" + hit[0]
                st.store[obj + "#disc"] = z3.BitVecVal(self.variants[PROMOTED[hit[0]]], 64)
                self.write_path(st, dpath, Ref(obj))
                return
        v, _, _ = self.operand(st, rhs)
        if v is not None:
            self.write_path(st, dpath, v)
            return
        m = re.match(r"&(?:raw (?:const|mut) )?(?:\(fake(?: \w+)?\) )?(?:mut )?(?:\(fake(?: \w+)?\) )?(.+)$", rhs)
        if m and not rhs.startswith("&&") :
            try:
                tpath, _ = self.resolve(st, m.group(1))
                self.write_path(st, dpath, Ref(tpath))
                return
            except ValueError:
                pass
        m = re.match(r"discriminant\((.*)\)$", rhs)
        if m:
            spath, _ = self.resolve(st, m.group(1))
            d = st.store.get(spath + "#disc")
            if d is None:
                d = self.read_path(st, spath + "#disc", "isize")
            self.write_path(st, dpath, fit(d, dty))
            return
        m = re.match(r"(\w+)\((.*)\)$", rhs)
        if m and m.group(1) in BINOPS | UNOPS:
            ops = split_top(m.group(2))
            vals = [self.operand(st, o) for o in ops]
            res = self.arith(m.group(1), vals, dty, st)
            if res is not None:
                if isinstance(res, tuple):
                    self.write_path(st, dpath, Agg("t_" + site))
                    st.store[dpath + ".0"] = res[0]
                    st.store[dpath + ".1"] = res[1]
                else:
                    self.write_path(st, dpath, res)
                return
        m = re.match(r"(.+) as (\w+) \((\w+)\)$", rhs)
        if m and m.group(3) in ("IntToInt",):
            v, _, sty = self.operand(st, m.group(1))
            if v is not None and z3.is_bv(v) and m.group(2) in INT_W:
                w = INT_W[m.group(2)]
                if v.size() == w:
                    r = v
                elif v.size() > w:
                    r = z3.Extract(w - 1, 0, v)
                else:
                    r = z3.SignExt(w - v.size(), v) if sty in SIGNED else z3.ZeroExt(w - v.size(), v)
                self.write_path(st, dpath, r)
                return
        if re.match(r"(.+) as (.+) \((\w+(?:\(.*\))?)\)$", rhs):
            m = re.match(r"(?:copy|move) (.+?) as ", rhs)
            if m:
                try:
                    spath, sty = self.resolve(st, m.group(1))
                    self.copy_value(st, spath, dpath, sty)
                    return
                except ValueError:
                    pass
        # aggregates
        if self.aggregate(st, dpath, dty, rhs, site):
            return
        # unknown rvalue -> fresh
        self.write_path(st, dpath, self.fresh_for_type("c_" + site, dty))

    def aggregate(self, st, dpath, dty, rhs, site):
        # tuple
        if rhs.startswith("(") and rhs.endswith(")") and matching(rhs, 0) == len(rhs) - 1 and ("," in rhs):
            parts = split_top(rhs[1:-1])
            self.write_path(st, dpath, Agg("t_" + site))
            for i, p in enumerate(parts):
                self.assign_field(st, dpath + ".%d" % i, p)
            return True
        # struct with named fields:  path::Type::<..> { a: x, b: y }   (also closures: {closure@..} { cap: x })
        m = re.match(r"(.*?) \{ (.*) \}$", rhs)
        if m and not rhs.startswith("const"):
            self.write_path(st, dpath, Agg("s_" + site))
            st.store[dpath + "#type"] = z3.BoolVal(True)
            del st.store[dpath + "#type"]
            tf = self.tracked_fields.get(dpath) if self.tracked is not None else None
            for i, p in enumerate(split_top(m.group(2))):
                if tf is not None and i not in tf:
                    continue
                if ": " in p:
                    _, val = p.split(": ", 1)
                    self.assign_field(st, dpath + ".%d" % i, val)
            h = self.hooks.get("on_aggregate")
            if h:
                h(self, st, m.group(1), dpath, site)
            return True
        # bare unit variant (printed without its path, e.g. `_106 = Revert`)
        if re.fullmatch(r"[A-Z]\w*", rhs) and rhs in self.variants:
            self.write_path(st, dpath, Agg("e_" + site))
            st.store[dpath + "#disc"] = z3.BitVecVal(self.variants[rhs], 64)
            return True
        # enum variant:  Path::<..>::Variant(args)  or unit variant  Path::Variant
        m = re.match(r"([\w:<>'&\[\], ()@\-.{}#]*?)::(\w+)(?:\((.*)\))?$", rhs)
        if m and m.group(2) in self.variants and not rhs.startswith("const"):
            name = m.group(2)
            self.write_path(st, dpath, Agg("e_" + site))
            st.store[dpath + "#disc"] = z3.BitVecVal(self.variants[name], 64)
            if m.group(3) is not None:
                for i, p in enumerate(split_top(m.group(3))):
                    self.assign_field(st, dpath + "@%s.%d" % (name, i), p)
            return True
        return False

    def assign_field(self, st, path, operand_s):
        v, spath, sty = self.operand(st, operand_s)
        if spath is not None:
            self.copy_value(st, spath, path, sty)
        elif v is not None:
            st.store[path] = v

    def arith(self, op, vals, dty, st):
        a = vals[0][0]
        b = vals[1][0] if len(vals) > 1 else None
        aty = vals[0][2]
        if a is None or isinstance(a, (Ref, Agg)) or (b is not None and isinstance(b, (Ref, Agg))):
            if op == "PtrMetadata" and isinstance(a, Ref):
                return self.obj_len(st, a.target)
            return None
        if len(vals) > 1 and b is None:
            return None
        signed = aty in SIGNED
        if op in ("Eq", "Ne", "Lt", "Le", "Gt", "Ge"):
            if z3.is_bool(a) != z3.is_bool(b):
                return None
            if z3.is_bool(a):
                r = {"Eq": a == b, "Ne": a != b}.get(op)
                return r
            if a.size() != b.size():
                return None
            f = {"Eq": lambda x, y: x == y, "Ne": lambda x, y: x != y,
                 "Lt": (lambda x, y: x < y) if signed else z3.ULT, "Le": (lambda x, y: x <= y) if signed else z3.ULE,
                 "Gt": (lambda x, y: x > y) if signed else z3.UGT, "Ge": (lambda x, y: x >= y) if signed else z3.UGE}[op]
            return f(a, b)
        if op == "Not":
            return z3.Not(a) if z3.is_bool(a) else ~a
        if op == "Neg":
            return -a
        if not z3.is_bv(a) or (b is not None and (not z3.is_bv(b) or a.size() != b.size())):
            return None
        w = a.size()
        if op in ("Add", "AddUnchecked"):
            return a + b
        if op in ("Sub", "SubUnchecked"):
            return a - b
        if op in ("Mul", "MulUnchecked"):
            return a * b
        if op == "AddWithOverflow":
            if signed:
                ovf = z3.Or(z3.And(a >= 0, b >= 0, a + b < 0), z3.And(a < 0, b < 0, a + b >= 0))
            else:
                ovf = z3.ULT(a + b, a)
            return (a + b, ovf)
        if op == "SubWithOverflow":
            if signed:
                ovf = z3.Or(z3.And(a >= 0, b < 0, a - b < 0), z3.And(a < 0, b >= 0, a - b >= 0))
            else:
                ovf = z3.ULT(a, b)
            return (a - b, ovf)
        if op == "MulWithOverflow":
            if signed:
                ovf = z3.Not(z3.BVMulNoOverflow(a, b, True)) if hasattr(z3, "BVMulNoOverflow") else z3.BoolVal(False)
                ovf = z3.Or(ovf, z3.Not(z3.BVMulNoUnderflow(a, b)))
            else:
                ovf = z3.Not(z3.BVMulNoOverflow(a, b, False))
            return (a * b, ovf)
        if op == "Div":
            return a / b if signed else z3.UDiv(a, b)
        if op == "Rem":
            return z3.SRem(a, b) if signed else z3.URem(a, b)
        if op == "BitAnd":
            return a & b
        if op == "BitOr":
            return a | b
        if op == "BitXor":
            return a ^ b
        return None

    def obj_len(self, st, target):
        v = st.store.get(target + "#len")
        if v is None:
            v = self.read_path(st, target + "#len", "usize")
        return v

    # ---------------------------------------------------------------- calls
    def do_call(self, st, bb, site, stmt, dst, callee, args, nxt):
        h = self.hooks.get("on_call")
        if h:
            r = h(self, st, bb, site, stmt, dst, callee, args, nxt)
            if r is not None:
                return r
        argv = [self.operand(st, a) for a in args]
        res = self.model_call(st, bb, site, stmt, dst, callee, args, argv)
        if res is None:
            for pat, fnc in self.contracts:
                if re.search(pat, callee):
                    res = fnc(self, st, site, dst, callee, args, argv)
                    break
        if (isinstance(res, str) and res == "diverge") or nxt is None:
            return []
        if dst is not None and self.tracked is not None:
            rl = re.search(r"_\d+", dst)
            if rl and rl.group(0) not in self.tracked:
                dst = None
        if dst is not None:
            dpath, dty = self.resolve(st, dst)
            if res is None:
                self.write_path(st, dpath, self.fresh_for_type("c_" + site, dty))
                # havoc everything reachable through &mut arguments
                for (v, p, ty), a in zip(argv, args):
                    if isinstance(v, Ref) and (ty.startswith("&mut") or "&mut" in ty):
                        self.havoc_object(st, v.target, site)
            elif isinstance(res, tuple) and res and res[0] == "copy":
                self.copy_value(st, res[1], dpath, res[2])
            elif isinstance(res, dict):
                self.write_path(st, dpath, Agg("m_" + site))
                for k, val in res.items():
                    st.store[dpath + k] = val
            else:
                self.write_path(st, dpath, res)
        ha = self.hooks.get("after_call")
        if ha:
            ha(self, st, bb, site, stmt, dst, callee, args, argv)
        return [(nxt, st)]

    def model_call(self, st, bb, site, stmt, dst, callee, args, argv):
        c = callee
        # ---- lengths
        if re.search(r"(Vec::<.*>|\[.*\]>)::len$", c) or re.search(r"<impl \[.*\]>::len$", c) or c.endswith("::len") and ("Vec" in c or "slice" in c):
            v = argv[0][0]
            if isinstance(v, Ref):
                return self.obj_len(st, v.target)
            return None
        if re.search(r"as Deref>::deref$", c) or re.search(r"as DerefMut>::deref_mut$", c) or re.search(r"as AsRef<.*>>::as_ref$", c) or c.endswith("::as_slice") or c.endswith("::as_path"):
            v = argv[0][0]
            if isinstance(v, Ref):
                return Ref(v.target)      # same abstract object (its #len is shared)
            return None
        if re.search(r"cmp::min::<(\w+)>$", c):
            a, b = argv[0][0], argv[1][0]
            if z3.is_bv(a) and z3.is_bv(b):
                return z3.If(z3.ULE(a, b), a, b)
        if re.search(r"cmp::max::<(\w+)>$", c):
            a, b = argv[0][0], argv[1][0]
            if z3.is_bv(a) and z3.is_bv(b):
                return z3.If(z3.UGE(a, b), a, b)
        if c.endswith("::saturating_sub"):
            a, b = argv[0][0], argv[1][0]
            if z3.is_bv(a) and z3.is_bv(b):
                return z3.If(z3.UGE(a, b), a - b, z3.BitVecVal(0, a.size()))
        if re.search(r"<impl (isize|i64)>::max_value$", c) or re.search(r"<impl (isize|i64)>::max$", c):
            return z3.BitVecVal(2 ** 63 - 1, 64)
        if re.search(r"<impl (usize|u64)>::max_value$", c):
            return z3.BitVecVal(2 ** 64 - 1, 64)
        if c.endswith("::saturating_add"):
            a, b = argv[0][0], argv[1][0]
            if z3.is_bv(a) and z3.is_bv(b):
                return z3.If(z3.ULT(a + b, a), z3.BitVecVal(-1, a.size()), a + b)
        # ---- Option<int>::unwrap_or / unwrap_or_default
        um = re.search(r"Option::<(\w+)>::(unwrap_or|unwrap_or_default)$", c)
        if um and um.group(1) in INT_W and argv and argv[0][1] is not None:
            p = argv[0][1]
            d = self.read_path(st, p + "#disc", "isize")
            pay = self.read_path(st, p + "@Some.0", um.group(1))
            dflt = argv[1][0] if um.group(2) == "unwrap_or" else z3.BitVecVal(0, INT_W[um.group(1)])
            if z3.is_bv(pay) and dflt is not None and z3.is_bv(dflt):
                st.pc.append(z3.Or(d == 0, d == 1))
                return z3.If(d == 1, pay, dflt)
            return None
        # ---- Range<usize>: into_iter is the identity, next steps `start` while start < end
        if re.search(r"Range<usize> as IntoIterator>::into_iter$", c) and argv and argv[0][1] is not None:
            return ("copy", argv[0][1], argv[0][2])
        if re.search(r"Range<usize> as Iterator>::next$", c) and argv and isinstance(argv[0][0], Ref):
            r = argv[0][0].target
            s0 = self.read_path(st, r + ".0", "usize")
            e0 = self.read_path(st, r + ".1", "usize")
            if z3.is_bv(s0) and z3.is_bv(e0):
                more = z3.ULT(s0, e0)
                st.store[r + ".0"] = z3.If(more, s0 + 1, s0)
                return {"#disc": z3.If(more, z3.BitVecVal(1, 64), z3.BitVecVal(0, 64)), "@Some.0": s0}
            return None
        # ---- RangeInclusive<usize>: new / into_iter / next (start, end, exhausted)
        if re.search(r"RangeInclusive::<usize>::new$", c) and len(argv) == 2 and z3.is_bv(argv[0][0]) and z3.is_bv(argv[1][0]):
            return {"@ri.s": argv[0][0], "@ri.e": argv[1][0], "@ri.x": z3.BoolVal(False)}
        if re.search(r"RangeInclusive<usize> as IntoIterator>::into_iter$", c) and argv and argv[0][1] is not None:
            return ("copy", argv[0][1], argv[0][2])
        if re.search(r"RangeInclusive<usize> as Iterator>::next$", c) and argv and isinstance(argv[0][0], Ref):
            r = argv[0][0].target
            s0, e0, x0 = st.store.get(r + "@ri.s"), st.store.get(r + "@ri.e"), st.store.get(r + "@ri.x")
            if s0 is not None and e0 is not None and x0 is not None:
                more = z3.And(z3.Not(x0), z3.ULE(s0, e0))
                st.store[r + "@ri.x"] = z3.If(more, s0 == e0, x0)
                st.store[r + "@ri.s"] = z3.If(z3.And(more, z3.ULT(s0, e0)), s0 + 1, s0)
                return {"#disc": z3.If(more, z3.BitVecVal(1, 64), z3.BitVecVal(0, 64)), "@Some.0": s0}
            return None
        # ---- Try / FromResidual on Result / Option
        if re.search(r"as Try>::branch$", c):
            p = argv[0][1]
            if p is None:
                return None
            ty = argv[0][2]
            d = st.store.get(p + "#disc")
            if d is None:
                d = self.read_path(st, p + "#disc", "isize")
            is_opt = ty.strip().startswith(("Option", "std::option::Option"))
            out = {}
            if is_opt:
                # Some(v) -> Continue(v); None -> Break(None)
                out["#disc"] = z3.If(d == 1, z3.BitVecVal(0, 64), z3.BitVecVal(1, 64))
                self.link_payload(st, p + "@Some.0", out, "@Continue.0")
            else:
                out["#disc"] = z3.If(d == 0, z3.BitVecVal(0, 64), z3.BitVecVal(1, 64))
                self.link_payload(st, p + "@Ok.0", out, "@Continue.0")
            out["#src"] = Ref(p)
            return out
        if re.search(r"as FromResidual<.*>>::from_residual$", c):
            dty = self.fn.types.get(dst, "") if dst and re.fullmatch(r"_\d+", dst) else ""
            if "Option" in c.split(" as ")[0]:
                return {"#disc": z3.BitVecVal(0, 64)}
            return {"#disc": z3.BitVecVal(1, 64)}
        # ---- Iterator::position
        if re.search(r"as Iterator>::position::<", c):
            it = argv[0][0]
            ln = None
            if isinstance(it, Ref):
                src = st.store.get(it.target + "#iter_of")
                if isinstance(src, Ref):
                    ln = self.obj_len(st, src.target)
            i = z3.BitVec("c_%s_pos" % site, 64)
            d = z3.BitVec("c_%s_posdisc" % site, 64)
            st.pc.append(z3.Or(d == 0, d == 1))
            if ln is not None:
                st.pc.append(z3.Implies(d == 1, z3.ULT(i, ln)))
            return {"#disc": d, "@Some.0": i}
        if re.search(r"<impl \[.*\]>::iter$", c) or c.endswith("::iter"):
            v = argv[0][0]
            if isinstance(v, Ref):
                return {"#iter_of": Ref(v.target)}
            return None
        # ---- Index<Range>
        if re.search(r"as Index<(?:std::ops::)?Range<usize>>>::index$", c):
            base, rng = argv[0][0], argv[1]
            rp = rng[1]
            if isinstance(base, Ref) and rp is not None:
                start = self.read_path(st, rp + ".0", "usize")
                end = self.read_path(st, rp + ".1", "usize")
                ln = self.obj_len(st, base.target)
                ok = z3.And(z3.ULE(start, end), z3.ULE(end, ln))
                h = self.hooks.get("on_precondition")
                if h:
                    h(self, st, bb, stmt, ok, "slice index start <= end <= len")
                st.pc.append(ok)
                obj = "slice_%s" % site
                st.store[obj + "#len"] = end - start
                st.store[obj + "#slice_of"] = Ref(base.target)
                st.store[obj + "#start"] = start
                st.store[obj + "#end"] = end
                return Ref(obj)
            return None
        if re.search(r"as Index<usize>>::index$", c):
            base, i = argv[0][0], argv[1][0]
            if isinstance(base, Ref) and z3.is_bv(i):
                ln = self.obj_len(st, base.target)
                ok = z3.ULT(i, ln)
                h = self.hooks.get("on_precondition")
                if h:
                    h(self, st, bb, stmt, ok, "index < len")
                st.pc.append(ok)
            return None
        # ---- comparisons of field-less enums (through references)
        em = re.match(r"<(?:apply::)?(ApplyConfigDoBackups|Verbosity|std::io::ErrorKind|ErrorKind) as (PartialEq|PartialOrd)>::(eq|ne|ge|gt|le|lt)$", c)
        if em and len(argv) == 2 and isinstance(argv[0][0], Ref) and isinstance(argv[1][0], Ref):
            da = self.read_path(st, argv[0][0].target + "#disc", "isize")
            db = self.read_path(st, argv[1][0].target + "#disc", "isize")
            op = em.group(3)
            return {"eq": da == db, "ne": da != db, "ge": da >= db, "gt": da > db, "le": da <= db, "lt": da < db}[op]
        # ---- iterator plumbing: the slice an iterator came from is remembered
        if re.search(r"as Iterator>::enumerate$|as IntoIterator>::into_iter$|as Iterator>::rev$", c):
            v, p0, _ = argv[0]
            if p0 is not None:
                src = st.store.get(p0 + "#iter_of")
                if isinstance(src, Ref):
                    return {"#iter_of": src}
            return None
        if re.search(r"<(?:std::iter::)?Enumerate<.*> as Iterator>::next$", c):
            it = argv[0][0]
            ln = None
            if isinstance(it, Ref):
                src = st.store.get(it.target + "#iter_of")
                if isinstance(src, Ref):
                    ln = self.obj_len(st, src.target)
            if ln is None:
                return None
            i = z3.BitVec("c_%s_idx" % site, 64)
            d = z3.BitVec("c_%s_edisc" % site, 64)
            st.pc.append(z3.Or(d == 0, d == 1))
            st.pc.append(z3.Implies(d == 1, z3.ULT(i, ln)))
            return {"#disc": d, "@Some.0": Agg("en_" + site), "@Some.0.0": i}
        # ---- uninterpreted pure functions: the result depends only on the identity / value of the arguments
        for pat, rty in self.pure_calls:
            if re.search(pat, strip_gen(c)):
                ids = []
                for (v, pth, ty) in argv:
                    if isinstance(v, Ref):
                        tv = st.store.get(v.target)
                        ids.append(tv.base if isinstance(tv, Agg) else v.target)
                    elif isinstance(v, Agg):
                        ids.append(v.base)
                    elif isinstance(v, z3.ExprRef):
                        ids.append(v.sexpr())
                    else:
                        ids.append("?")
                name = "uf_%s(%s)" % (re.sub(r"\W+", "_", strip_gen(c))[-40:], ",".join(ids))
                key = ("uf", name)
                if key not in self.lazy:
                    self.lazy[key] = self.fresh_for_type(name, rty)
                return self.lazy[key]
        # ---- PartialEq on scalars already handled by MIR ops; diverging calls
        if re.search(r"(panicking::panic|panic_fmt|unwrap_failed|expect_failed|process::exit|panic_const|core::panicking|begin_panic|usage|version)\b", c) and dst is None:
            return "diverge"
        return None

    def link_payload(self, st, src, out, dstsub):
        pref = src
        for k, v in list(st.store.items()):
            if k == pref or k.startswith(pref + ".") or k.startswith(pref + "@") or k.startswith(pref + "#"):
                out[dstsub + k[len(pref):]] = v
        if pref not in st.store:
            # unknown payload: make both sides agree lazily through a shared aggregate base
            base = Agg("pl_%s" % re.sub(r"\W", "_", pref))
            out[dstsub] = self.lazy.setdefault(("payload", pref), base)


BINOPS = {"Add", "Sub", "Mul", "Div", "Rem", "AddWithOverflow", "SubWithOverflow", "MulWithOverflow", "AddUnchecked", "SubUnchecked",
          "MulUnchecked", "Lt", "Le", "Gt", "Ge", "Eq", "Ne", "BitAnd", "BitOr", "BitXor", "Shl", "Shr", "Offset", "Cmp"}
UNOPS = {"Not", "Neg", "PtrMetadata"}


class _CallMatch:
    def __init__(self, dst, callee, args):
        self._g = (None, dst, callee, args)

    def group(self, i):
        return self._g[i]


def callm(stmt, need_dst=False):
    """Match-like view of a MIR call statement: group(1) destination (or None), group(2) callee, group(3) arguments."""
    if not re.search(r"\) -> (\[return: bb\d+, unwind|unwind |bb\d+$)", stmt) or stmt.startswith(("drop(", "assert(", "switchInt(")):
        return None
    pc_ = parse_call(stmt)
    if not pc_:
        return None
    dst, callee, args, _ = pc_
    if need_dst and (dst is None or not re.fullmatch(r"_\d+", dst)):
        return None
    return _CallMatch(dst, callee, args)


def parse_call(s):
    """`[dst = ]callee(args) -> [return: bbN, unwind ...]` -> (dst, callee, args, next).  The argument list is the
    last balanced parenthesis group before the arrow (callee paths may themselves contain `()`)."""
    m = re.match(r"(.*\)) -> (?:\[return: (bb\d+), unwind[^\]]*\]|unwind .*|bb\d+)$", s)
    if not m:
        return None
    head, nxt = m.group(1), m.group(2)
    depth = 0
    i = len(head) - 1
    while i >= 0:
        if head[i] == ")":
            depth += 1
        elif head[i] == "(":
            depth -= 1
            if depth == 0:
                break
        i -= 1
    if i <= 0:
        return None
    args = head[i + 1:-1]
    pre = head[:i]
    dm = re.match(r"((?:\(.*?\)|_\d+|\(\*_\d+\))) = (.*)$", pre)
    if dm and not pre.startswith("<"):
        return dm.group(1), dm.group(2), args, nxt
    return None, pre, args, nxt


def strip_gen(c):
    out, i = "", 0
    while i < len(c):
        if c.startswith("::<", i):
            depth, j = 0, i + 2
            while j < len(c):
                if c[j] == "<":
                    depth += 1
                elif c[j] == ">" and c[j - 1] != "-":
                    depth -= 1
                    if depth == 0:
                        break
                j += 1
            i = j + 1
        else:
            out += c[i]
            i += 1
    return out


def fit(v, ty):
    if z3.is_bv(v) and ty in INT_W and v.size() != INT_W[ty]:
        w = INT_W[ty]
        return z3.Extract(w - 1, 0, v) if v.size() > w else z3.SignExt(w - v.size(), v)
    return v


def eq_const(v, k):
    if z3.is_bool(v):
        return v if k != 0 else z3.Not(v)
    return v == z3.BitVecVal(k, v.size())


def neq_const(v, k):
    return z3.Not(eq_const(v, k))


def symbols(e):
    out = set()
    seen = set()
    stack = [e]
    while stack:
        x = stack.pop()
        if x.get_id() in seen:
            continue
        seen.add(x.get_id())
        if z3.is_const(x) and x.decl().kind() == z3.Z3_OP_UNINTERPRETED:
            out.add(x.decl().name())
        else:
            stack.extend(x.children())
    return out


def matching(s, i):
    depth = 0
    for j in range(i, len(s)):
        if s[j] == "(":
            depth += 1
        elif s[j] == ")":
            depth -= 1
            if depth == 0:
                return j
    return -1


def balanced(s):
    d = 0
    for c in s:
        if c == "(":
            d += 1
        elif c == ")":
            d -= 1
            if d < 0:
                return False
    return d == 0


def top_level(s):
    out, d = "", 0
    for c in s:
        if c in "([{":
            d += 1
        elif c in ")]}":
            d -= 1
        elif d == 0:
            out += c
    return out


def find_field_split(inner):
    """inner = 'PLACE.k: TYPE' -> (PLACE, k, TYPE); PLACE may contain parens and dots."""
    depth = 0
    i = 0
    while i < len(inner):
        c = inner[i]
        if c in "([":
            depth += 1
        elif c in ")]":
            depth -= 1
        elif c == ":" and depth == 0 and inner[i:i + 2] == ": " and (i == 0 or inner[i - 1] != ":") and inner[i + 1:i + 2] != ":":
            left, ty = inner[:i], inner[i + 2:]
            m = re.match(r"(.*)\.(\d+)$", left)
            if m:
                return m.group(1), m.group(2), ty
            return None
        i += 1
    return None


# ------------------------------------------------------------------------------------------ VC drivers
def find_fn(fns, pattern, sig=None):
    hits = [f for n, f in fns.items() if re.search(pattern, n) and (sig is None or re.search(sig, f.sig))]
    if len(hits) != 1:
        raise KeyError("function pattern %r matches %d MIR functions %s" % (pattern, len(hits), [h.name for h in hits][:5]))
    return hits[0]


def model_values(model, names=None):
    out = {}
    if model is None:
        return out
    for d in model.decls():
        n = d.name()
        if names is None or any(n.startswith(x) for x in names):
            try:
                out[n] = model[d].as_long() if z3.is_bv_value(model[d]) else str(model[d])
            except Exception:
                out[n] = str(model[d])
    return out


def seeds_for(fn, assert_sites=True, call_pats=(), extra=()):
    """Seed locals: operands of MIR asserts, arguments of calls matching call_pats, plus extras."""
    seeds = set(extra)
    for bb, stmts in fn.blocks.items():
        for s in stmts:
            if assert_sites:
                m = re.match(r"assert\((!?)(.*?), \"", s)
                if m:
                    seeds |= set(re.findall(r"_\d+", m.group(2)))
            for cp in call_pats:
                m = callm(s)
                if m and re.search(cp, m.group(2)):
                    seeds |= set(re.findall(r"_\d+", m.group(3)))
    return seeds


INDEX_PAT = r"as Index<.*>>::index$"


def vc_safety(fns, variants, fn_pat, setup=None, ignore=None, unroll=UNROLL, contracts=(), extra_modelled=None):
    """All MIR asserts and modelled preconditions of one function."""
    fn = find_fn(fns, fn_pat)
    found = []
    discharged = [0]

    def check(eng, st, bb, stmt, cond, msg):
        if ignore and re.search(ignore, stmt):
            return
        ok, model = eng.feasible(st, [z3.Not(cond)])
        eng.record_query("%s %s" % (bb, msg[:40]), list(st.pc) + [z3.Not(cond)])
        discharged[0] += 1
        if ok:
            found.append({"bb": bb, "stmt": stmt[:200], "what": msg, "model": model_values(model, ("in_", "c_")), "trace": list(st.trace[-40:])})

    eng = Engine(fns, fn, variants, hooks={"on_assert": check, "on_precondition": check}, unroll=unroll)
    eng.seeds = seeds_for(fn, True, (INDEX_PAT,))
    eng.contracts = list(contracts)
    eng.extra_modelled = extra_modelled
    eng.run(init=setup)
    return eng, found, discharged[0]


def vc_guard(fns, variants, fn_pat, callee_pat, cond_fn, setup=None, unroll=UNROLL, also_aggregates=None):
    """No call matching callee_pat (or construction of a closure matching also_aggregates) is
    reachable on a path satisfiable together with cond_fn(engine, state)."""
    fn = find_fn(fns, fn_pat)
    found = []
    reached = [0]

    def on_call(eng, st, bb, site, stmt, dst, callee, args, nxt):
        if re.search(callee_pat, callee):
            reached[0] += 1
            c = cond_fn(eng, st)
            ok, model = eng.feasible(st, [c])
            eng.record_query("%s call %s" % (bb, callee[:40]), list(st.pc) + [c])
            if ok:
                found.append({"bb": bb, "stmt": stmt[:200], "what": "call reachable under the condition", "callee": callee[:120],
                              "model": model_values(model, ("in_",)), "trace": list(st.trace[-40:])})
        return None

    def on_agg(eng, st, tyname, dpath, site):
        if also_aggregates and re.search(also_aggregates, tyname):
            reached[0] += 1
            c = cond_fn(eng, st)
            ok, model = eng.feasible(st, [c])
            if ok:
                found.append({"bb": site, "stmt": tyname[:200], "what": "closure constructed under the condition", "callee": tyname[:120],
                              "model": model_values(model, ("in_",)), "trace": list(st.trace[-40:])})

    eng = Engine(fns, fn, variants, hooks={"on_call": on_call, "on_aggregate": on_agg}, unroll=unroll)
    eng.run(init=setup)
    return eng, found, reached[0]


def cross_check(eng, work, tag, limit=400):
    """Diff z3's verdicts with cvc5 on the recorded queries (sample up to `limit`)."""
    if shutil.which("cvc5") is None:
        return {"checked": 0, "note": "cvc5 not found"}
    n = 0
    disagreements = []
    errors = 0
    for i, (label, txt) in enumerate(eng.smt2[:limit]):
        p = os.path.join(work, "q_%s_%d.smt2" % (tag, i))
        with open(p, "w") as f:
            f.write(txt + "\n")
        r1 = subprocess.run(["z3", p], capture_output=True, text=True, timeout=60).stdout
        r2 = subprocess.run(["cvc5", "--lang", "smt2", p], capture_output=True, text=True, timeout=60)
        o2 = r2.stdout + r2.stderr
        if "(error" in r1 or "(error" in o2 or "error" in o2.lower():
            errors += 1
            continue
        a = r1.strip().split("\n")[0] if r1.strip() else "?"
        b = o2.strip().split("\n")[0] if o2.strip() else "?"
        n += 1
        if a != b:
            disagreements.append((label, a, b))
        os.unlink(p)
    return {"checked": n, "disagreements": disagreements, "errors": errors}


def run_vcs(vcs, work, pid, log):
    """vcs: list of dicts produced by property modules:
       {name, target: 'bin'|'lib', run: callable(fns, variants) -> dict(verdict, ...)}"""
    texts = {}
    results = []
    variants = enum_variants_from_source()
    parsed = {}
    tables = {}
    for vc in vcs:
        tgt = vc.get("target", "bin")
        if tgt not in parsed:
            try:
                texts[tgt] = dump_mir(work, tgt, log)
                parsed[tgt] = parse_mir(texts[tgt])
                # parse_mir fills two module-level tables (promoted constants, named constants) for the text it parsed:
                # keep them per target, a property may mix VCs over the library's and the binary's MIR
                tables[tgt] = (dict(PROMOTED), dict(NAMED_CONSTS))
            except Exception as e:
                results.append({"name": vc["name"], "verdict": "inconclusive", "reason": "MIR dump: %s" % str(e)[:500]})
                continue
        t0 = time.time()
        PROMOTED.clear(); PROMOTED.update(tables[tgt][0])
        NAMED_CONSTS.clear(); NAMED_CONSTS.update(tables[tgt][1])
        try:
            r = vc["run"](parsed[tgt], variants, work)
        except KeyError as e:
            r = {"verdict": "inconclusive", "reason": "anchor not found in MIR: %s" % e}
        except Exception as e:  # parse / solver trouble is never a verdict
            import traceback
            r = {"verdict": "inconclusive", "reason": "engine error: %s" % traceback.format_exc()[-800:]}
        rs = r if isinstance(r, list) else [r]
        for r in rs:
            r.setdefault("name", vc["name"])
            r.setdefault("function", vc.get("function"))
            r["wall_s"] = round((time.time() - t0) / len(rs), 2)
            log("  VC %-60s %-12s %5.1fs queries=%s states=%s %s" % (r["name"][:60], r["verdict"], r["wall_s"], r.get("queries"), r.get("states"),
                                                                    (r.get("reason") or "")[:100]))
            results.append(r)
    return results


def summarize(eng, found, extra=None, work=None, tag="vc", witness_ok=True, witness_note=""):
    r = {"queries": eng.queries, "states": eng.states, "paths": eng.paths, "solver_s": round(eng.solver_s, 3),
         "blocks": len(eng.fn.blocks), "unroll": eng.unroll, "function": eng.fn.name}
    if extra:
        r.update(extra)
    if eng.truncated:
        r["verdict"] = "inconclusive"
        r["reason"] = "state budget exhausted"
        return r
    if work is not None:
        cc = cross_check(eng, work, tag)
        r["cvc5_cross_check"] = {"checked": cc.get("checked"), "disagreements": len(cc.get("disagreements", [])), "errors": cc.get("errors")}
        if cc.get("disagreements"):
            r["verdict"] = "inconclusive"
            r["reason"] = "z3 and cvc5 disagree on %s" % cc["disagreements"][:2]
            return r
    if found:
        r["verdict"] = "violation"
        r["candidates"] = found[:8]
    elif not witness_ok:
        r["verdict"] = "inconclusive"
        r["reason"] = "vacuity witness failed: " + witness_note
    else:
        r["verdict"] = "holds"
    return r
