"""Native builds of /repo's current working tree (scratch copy) for replays through the real binary."""
import os
import shutil
import subprocess
import tempfile

from . import overlay as ov

CACHE = os.path.join(ov.VERIF, ".cache")


def build_binary(work, log=None, release=False):
    """Returns path to a freshly built rapidquilt binary of /repo's working tree."""
    src = os.path.join(work, "native_src")
    if not os.path.exists(src):
        os.makedirs(src)
        shutil.copytree(os.path.join(ov.REPO, "src"), os.path.join(src, "src"))
        for f in ("Cargo.toml", "Cargo.lock"):
            shutil.copy(os.path.join(ov.REPO, f), os.path.join(src, f))
        with open(os.path.join(src, "Cargo.toml"), "a") as f:
            f.write("\n[workspace]\n")
    tdir = os.path.join(work, "native_target")
    cache = os.path.join(CACHE, "target-native")
    if not os.path.exists(tdir) and os.path.isdir(cache):
        subprocess.run(["cp", "-a", cache, tdir], check=True)
    env = dict(os.environ)
    env["CARGO_NET_OFFLINE"] = "true"
    cmd = ["cargo", "build", "--offline", "--bin", "rapidquilt", "--target-dir", tdir]
    if release:
        cmd.append("--release")
    p = subprocess.run(cmd, cwd=src, env=env, capture_output=True, text=True)
    if p.returncode != 0:
        raise RuntimeError("native build failed: %s" % p.stderr[-1500:])
    return os.path.join(tdir, "release" if release else "debug", "rapidquilt")


def snapshot(root):
    """(relative path -> (mode, size, bytes-hash or 'dir')) for everything under root."""
    import hashlib
    out = {}
    for d, dirs, files in os.walk(root):
        for n in dirs + files:
            p = os.path.join(d, n)
            rel = os.path.relpath(p, root)
            st = os.lstat(p)
            if os.path.isdir(p) and not os.path.islink(p):
                out[rel] = ("dir", st.st_mode & 0o7777)
            else:
                with open(p, "rb") as f:
                    h = hashlib.sha1(f.read()).hexdigest()
                out[rel] = ("file", st.st_mode & 0o7777, h, st.st_ino, st.st_mtime_ns)
    return out


def run_push(binary, wsdir, args, timeout=60):
    p = subprocess.run([binary, "push", "-d", wsdir] + list(args), capture_output=True, text=True, timeout=timeout,
                       env=dict(os.environ, RUST_BACKTRACE="0"))
    return p.returncode, p.stdout, p.stderr


def make_workspace(root, files, series, patches, applied=None):
    """files: {relpath: bytes}; series: list of lines; patches: {name: bytes}; applied: list of names or None."""
    os.makedirs(root, exist_ok=True)
    for rel, data in files.items():
        p = os.path.join(root, rel)
        os.makedirs(os.path.dirname(p), exist_ok=True)
        with open(p, "wb") as f:
            f.write(data)
    with open(os.path.join(root, "series"), "w") as f:
        f.write("".join(l + "\n" for l in series))
    os.makedirs(os.path.join(root, "patches"), exist_ok=True)
    for n, data in patches.items():
        p = os.path.join(root, "patches", n)
        os.makedirs(os.path.dirname(p), exist_ok=True)
        with open(p, "wb") as f:
            f.write(data)
    if applied is not None:
        os.makedirs(os.path.join(root, ".pc"), exist_ok=True)
        with open(os.path.join(root, ".pc", "applied-patches"), "w") as f:
            f.write("".join(l + "\n" for l in applied))
    return root
