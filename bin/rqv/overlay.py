"""Overlay build of /repo for Kani: copy the working tree to a scratch directory, append
`#[cfg(kani)] #[path=...] mod verif_h;` lines to the real source files (line numbers of the
original code are preserved), point two dependencies at stand-in crates and, for the harness
families that need them, switch the content vectors / HashMap to fixed-capacity stand-ins
behind the overlay-only cargo feature `verif_containers`.

Nothing here touches /repo.  A rewrite pattern that is not found raises OverlayError, which
the caller turns into exit 2 (inconclusive), never into a violation.
"""
import os
import re
import shutil

VERIF = os.path.dirname(os.path.dirname(os.path.dirname(os.path.abspath(__file__))))
REPO = os.environ.get("VERIF_REPO", "/repo")
HARNESS_SRC = os.path.join(VERIF, "harness")
HARNESS = HARNESS_SRC
STUBS = os.path.join(VERIF, "stubs")


class OverlayError(Exception):
    pass


# real source file (relative to repo) -> harness module appended to it
# module key -> (real source file, harness file, name of the appended child module)
MODULES = {
    "patch": ("src/libpatch/patch/mod.rs", "patch_h.rs", "verif_h"),
    "patchpriv": ("src/libpatch/patch/mod.rs", "patch_priv_h.rs", "verif_hp"),
    "parser": ("src/libpatch/patch/unified/parser.rs", "parser_h.rs", "verif_h"),
    "rej": ("src/libpatch/patch/unified/writer.rs", "rej_h.rs", "verif_h"),
    "lines": ("src/libpatch/util/lines_with_endings.rs", "lines_h.rs", "verif_h"),
    "parallel": ("src/rapidquilt/apply/parallel.rs", "parallel_h.rs", "verif_h"),
    "common": ("src/rapidquilt/apply/common.rs", "common_h.rs", "verif_h"),
}
REQUIRES = {"patchpriv": ["patch"], "rej": ["parser", "patch"]}


def _rewrite(path, pattern, repl, what):
    with open(path) as f:
        txt = f.read()
    new, n = re.subn(pattern, repl, txt, count=1, flags=re.M)
    if n != 1:
        raise OverlayError("anchor not found in %s: %s" % (path, what))
    if new.count("\n") != txt.count("\n"):
        raise OverlayError("rewrite changed line count in %s" % path)
    with open(path, "w") as f:
        f.write(new)


def make_overlay(dst, modules=None, containers=True, hashmap=True, real_memchr=False, gen_dir=None):
    """Create the overlay crate in `dst` (must not exist).  Returns dst."""
    if os.path.exists(dst):
        shutil.rmtree(dst)
    os.makedirs(dst)
    shutil.copytree(os.path.join(REPO, "src"), os.path.join(dst, "src"))
    for f in ("Cargo.toml", "Cargo.lock"):
        shutil.copy(os.path.join(REPO, f), os.path.join(dst, f))
    # testdata is referenced by cfg(test) modules only; link it so that replays (cargo test) work
    if os.path.isdir(os.path.join(REPO, "testdata")):
        os.symlink(os.path.join(REPO, "testdata"), os.path.join(dst, "testdata"))

    # ---- Cargo.toml
    ct = os.path.join(dst, "Cargo.toml")
    with open(ct) as f:
        toml = f.read()
    if "[features]" not in toml:
        toml += "\n[features]\n"
    toml = toml.replace("[features]", "[features]\nverif_containers = []", 1)
    toml += "\n[workspace]\n\n[patch.crates-io]\n"
    toml += 'backtrace = { path = "%s/backtrace" }\n' % STUBS
    if not real_memchr:
        toml += 'memchr = { path = "%s/memchr" }\n' % STUBS
    # Kani's cfg is set by the compiler driver; tell cargo it is expected
    toml += '\n[lints.rust]\nunexpected_cfgs = { level = "allow" }\n'
    with open(ct, "w") as f:
        f.write(toml)

    # ---- harness modules (appended: original line numbers stay)
    keys = list(MODULES) if modules is None else list(modules)
    for k in list(keys):
        for r in REQUIRES.get(k, []):
            if r not in keys:
                keys.append(r)
    for k in keys:
        rel, h, modname = MODULES[k]
        p = os.path.join(dst, rel)
        if not os.path.exists(p):
            raise OverlayError("source file missing: %s" % rel)
        hp = os.path.join(HARNESS, h)
        if not os.path.exists(hp):
            continue
        with open(p, "a") as f:
            f.write('\n#[cfg(kani)] #[path = "%s"] pub(crate) mod %s;\n' % (hp, modname))

    # ---- container stand-ins behind the overlay-only feature
    lib = os.path.join(dst, "src/libpatch/lib.rs")
    with open(lib, "a") as f:
        f.write('\n#[cfg(kani)] #[path = "%s/verif_vec.rs"] pub mod verif_vec;\n' % HARNESS)
        f.write('#[cfg(kani)] #[path = "%s/verif_util.rs"] pub mod verif_util;\n' % HARNESS)
    if containers:
        _rewrite(os.path.join(dst, "src/libpatch/patch/mod.rs"),
                 r"^type ContentVec<Line> = Vec<Line>;$",
                 '#[cfg(not(feature = "verif_containers"))] type ContentVec<Line> = Vec<Line>; '
                 '#[cfg(feature = "verif_containers")] type ContentVec<Line> = crate::verif_vec::VVec<Line>;',
                 "type ContentVec<Line> = Vec<Line>;")
        _rewrite(os.path.join(dst, "src/libpatch/modified_file.rs"),
                 r"^use std::fs::Permissions;$",
                 'use std::fs::Permissions; #[cfg(feature = "verif_containers")] use crate::verif_vec::VVec as Vec;',
                 "use std::fs::Permissions;")
    if hashmap and "parallel" in keys:
        par = os.path.join(dst, "src/rapidquilt/apply/parallel.rs")
        _rewrite(par,
                 r"^use std::collections::\{HashMap, HashSet\};$",
                 '#[cfg(not(feature = "verif_containers"))] use std::collections::HashMap; use std::collections::HashSet; '
                 '#[cfg(feature = "verif_containers")] use self::verif_h::VMap as HashMap;',
                 "use std::collections::{HashMap, HashSet};")
    return dst
