"""C08 — quilt metadata: backup window arithmetic and guards over the drivers' MIR (DESIGN.md §2 C08)."""
from .. import mirvc
from . import _mir


def spec(tier, seed):
    return {
        "instances": [],
        "mir_vcs": [
            {"name": "sequential: backup guard and down_to_index", "function": "sequential::apply_patches", "target": "bin",
             "run": lambda f, v, w: _mir.vc_backup_window(f, v, w, r"^sequential::apply_patches$", "c08s")},
            {"name": "save_files_worker: backup guard and down_to_index", "function": "parallel::save_files_worker", "target": "bin",
             "run": lambda f, v, w: _mir.vc_backup_window(f, v, w, r"^save_files_worker$", "c08p")},
            {"name": "rollback_and_save_backup_files: window lower bound; both names of a rename", "function": "rollback_and_save_backup_files", "target": "bin",
             "run": lambda f, v, w: _mir.vc_backup_loop(f, v, w)},
            {"name": "save_backup_file: the backup gets the file's permissions through set_permissions before its content", "function": "save_backup_file", "target": "bin",
             "run": lambda f, v, w: _mir.vc_backup_keeps_mode(f, v, w)},
            {"name": "cmd_push: applied-patches gets exactly series[0..applied]", "function": "cmd_push", "target": "bin",
             "run": lambda f, v, w: _mir.vc_applied_patches_recorded(f, v, w)},
        ],
        "level": "other",
        "engine": "mirvc: bounded symbolic execution of the nightly MIR of the driver glue; z3 4.8.12, cross-checked with cvc5",
        "functions": ['sequential::apply_patches (MIR)', 'parallel::save_files_worker (MIR)', 'AppliedState::rollback_and_save_backup_files (MIR)', 'cmd::cmd_push (MIR)'],
        "symbolic": 'config.do_backups, config.backup_count (All | Last(n), n any u64), config.dry_run, final_patch, series length, patch indices, is_rename()',
        "bounds": {"loop_unrolling": mirvc.UNROLL, "integers": "bit-vectors of their Rust width"},
        "assumptions": [
            "callees are havoc'd (arbitrary result, &mut arguments invalidated) except the model table in bin/rqv/mirvc.py; unwinding out of callees is not followed",
            "all ApplyConfig references denote the single config built in cmd_push; field-less enum comparisons are discriminant comparisons",
            "a sat answer is only a candidate: it is reported after the scenario replay through the real binary reproduces a property violation, otherwise exit 2",
        ],
        "outside": ['bytes and modes under .pc/** (I/O)', 'that a backup holds the state before that patch (in-memory undo is C04)', 'pop simulation'],
        "explanation": 'the backup block runs iff !dry_run && (always || (onfail && stopped early)); down_to_index == final_patch -. n (All => 0) for every n; no backup below the window; a rename gets two backups',
        "rule": "one evaluation = one solver query (path feasibility or negated VC at a call site); non-trivial = distinct call site / assertion site decided",
    }


def replay_candidate(v, work, log):
    from .. import scenarios
    return scenarios.replay_for("C08", v, work, log)
