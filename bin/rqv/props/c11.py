"""C11 — the patch parser is total (DESIGN.md §2 C11)."""
from ..kani import Instance
from . import rotate, FROM_UTF8_STUB

# (family fn, needs from_utf8 stub, lengths quick, lengths thorough, unwind extra)
SUBS = [
    ("t_number", True, [1, 8], [0, 1, 4, 8, 21], 2),
    ("t_line_and_count", True, [8], [3, 8, 12], 2),
    ("t_hunk_header", True, [12], [4, 8, 12, 16], 2),
    ("t_hunk_line", False, [8], [0, 1, 2, 8, 12], 2),
    ("t_c_string", False, [8], [1, 2, 5, 8, 10], 2),
    ("t_filename", False, [8], [1, 4, 8, 10], 2),
    ("t_filename_direct", False, [8], [0, 8], 2),
    ("t_mode", True, [8], [3, 7, 8, 10], 2),
    ("t_git_hash", False, [8], [0, 8], 2),
    ("t_newline", False, [2], [0, 1, 2], 2),
    ("t_take_line_skip", False, [6], [0, 6], 2),
    ("t_take_line_incl", False, [6], [0, 6], 2),
    ("t_metadata_line", False, [8], [0, 4, 8], 2),
    ("t_git_metadata_line", True, [8], [0, 8], 2),
    ("t_patch_line", False, [8], [0, 8], 2),
    ("t_git_patch_line", True, [8], [0, 8], 2),
]
PREFIXED = [
    ("diffgit", b"diff --git ", False, 8), ("minus", b"--- ", False, 8), ("plus", b"+++ ", False, 8),
    ("index", b"index ", True, 10), ("oldmode", b"old mode ", True, 8), ("newmode", b"new mode ", True, 8),
    ("newfilemode", b"new file mode ", True, 8), ("delfilemode", b"deleted file mode ", True, 8),
    ("renamefrom", b"rename from ", True, 4), ("renameto", b"rename to ", True, 4), ("copyfrom", b"copy from ", True, 4),
    ("copyto", b"copy to ", True, 4), ("gitbinary", b"GIT binary patch", True, 3),
]
DIGITS = [1, 10, 19, 20, 21]


def bytes_lit(b):
    return 'b"%s"' % "".join(chr(c) if 32 <= c < 127 and chr(c) not in '"\\' else "\\x%02x" % c for c in b)


def spec(tier, seed):
    inst = []
    q = tier == "quick"
    inst.append(Instance("c11_twin", "parser", "t_twin()", unwind=8, stubs=[FROM_UTF8_STUB], mem_gb=3, timeout_s=600, expect_fail=True, sub="vacuity twin"))
    for fn, stub, lq, lt, ux in SUBS:
        for L in (lq if q else lt):
            inst.append(Instance("c11a_%s_%d" % (fn[2:], L), "parser", "%s::<%d>(%d)" % (fn, max(L, 1), L), unwind=max(L, 4) + 3 + ux,
                                 unwindset={"memcmp.0": 14}, stubs=[FROM_UTF8_STUB] if stub else [], mem_gb=6, timeout_s=1200,
                                 sub="C11a sub-parser on a symbolic buffer", params=dict(parser=fn[2:], buffer_bytes=L)))
    inst.append(Instance("c11a_oct3", "parser", "t_oct3()", unwind=6, mem_gb=2, timeout_s=300, sub="C11a parse_oct3", params=dict(parser="oct3", buffer_bytes="0..4")))
    inst.append(Instance("c11a_error_from", "parser", "t_error_from::<6>()", unwind=10, mem_gb=4, timeout_s=900,
                         stubs=[("alloc::string::String::from_utf8_lossy", "crate::verif_util::lossy_stub")],
                         sub="C11a ParseError construction", params=dict(buffer_bytes=6)))
    pre = PREFIXED if not q else rotate([x for x in PREFIXED if x[0] != "diffgit"], seed, 4)    # `diff --git` + 8 bytes: 520 s / 7 GB, thorough tier
    for nm, pfx, git, tail in pre:
        n = len(pfx) + tail
        inst.append(Instance("c11a_kw_%s" % nm, "parser", "t_prefixed::<%d>(%s, %s)" % (n, bytes_lit(pfx), str(git).lower()), unwind=n + 4,
                             unwindset={"memcmp.0": 20}, stubs=[FROM_UTF8_STUB], mem_gb=8, timeout_s=1500,
                             sub="C11a keyword line with symbolic tail", params=dict(keyword=pfx.decode(), tail_bytes=tail)))
    # hunk / hunks on short symbolic buffers behind a concrete header
    for L in ([4] if q else [2, 4, 6]):
        inst.append(Instance("c11a_hunk_%d" % L, "parser", "t_hunk_body::<%d>()" % L, unwind=20, unwindset={"memcmp.0": 6}, stubs=[FROM_UTF8_STUB],
                             mem_gb=8, timeout_s=1500, unwind_fns={"libpatch::patch::unified::parser::parse_hunk.0": L + 2}, sub="C11a parse_hunk: concrete header, symbolic body", params=dict(body_bytes=L)))
    # (b) numeric fields through parse_hunk: concrete extreme values in one field (the others 1), symbolic body.
    # (Symbolic digit strings through parse_hunk exceed 8 GB: reserve() of a symbolic count; the header-only family
    #  c11b_value below decides every digit string for the number parser itself.)
    VALUES = [0, 1, 2**31, 2**63 - 1, 2**63, 2**63 + 1, 2**64 - 1, 2**64, 10**20]
    combos = []
    for pos in range(4):
        for v in VALUES:
            f = [1, 1, 1, 1]
            f[pos] = v
            combos.append(tuple(f))
    combos = sorted(set(combos))
    if q:
        # the extreme-value instances take 260-330 s / 7 GB each: three of them in the quick tier, the rest in the thorough one
        combos = [(1, 2**64 - 1, 1, 1), (2**63, 1, 1, 1), (1, 10**12, 1, 1), (0, 0, 1, 1), (1, 1, 0, 0), (5, 0, 6, 2)]
    for (a_, b_, c_, d_) in combos:
        hdr = "@@ -%d,%d +%d,%d @@\n" % (a_, b_, c_, d_)
        n = len(hdr) + 4
        nm = "c11b_num_%s" % "_".join(("e%d" % (len(str(x)) - 1) if x >= 10**12 and str(x).strip("0") == "1" else ("p%d%s" % (x.bit_length() - (0 if x & (x - 1) else 1), "" if x & (x - 1) == 0 else "m" if (x + 1) & x == 0 else "x") if x > 9 else str(x))) for x in (a_, b_, c_, d_))
        inst.append(Instance(nm, "parser", "t_numeric_conc::<%d>(%s)" % (n, bytes_lit(hdr.encode())), unwind=max(len(hdr), 26) + 2,
                             unwindset={"memcmp.0": 6}, stubs=[FROM_UTF8_STUB], mem_gb=8, timeout_s=1500, sub="C11b/d numeric fields through parse_hunk; capacity", sweep=("parser", "replay_sweep_numeric"),
                             unwind_fns={"libpatch::patch::unified::parser::parse_hunk.0": 7},
                             params=dict(header=hdr.strip(), body="4 symbolic bytes (at most 4 hunk lines: the hunk loop is bounded by 7, unwinding assertion on)")))
    for d in ([20] if q else [1, 19, 20, 21]):
        n = 4 + d + 11
        inst.append(Instance("c11b_value_%d" % d, "parser", "t_header_value::<%d>(%d)" % (n, d), unwind=d + 14, unwindset={"memcmp.0": 6},
                             stubs=[FROM_UTF8_STUB], mem_gb=8, timeout_s=1500, sub="C11b number value or rejection", params=dict(digits=d)))
    # (c) termination of placement for any line number the parser can deliver
    for (n, sh) in ([(3, (1, 1, 1, 1))] if q else [(3, (1, 1, 1, 1)), (3, (0, 1, 1, 0)), (4, (0, 1, 0, 1)), (2, (1, 0, 1, 0))]):
        inst.append(Instance("c11c_place_any_line_n%d_p%dr%da%ds%d" % ((n,) + sh), "patchpriv",
                             "place_any_line::<%d>(Shape { p: %d, r: %d, a: %d, s: %d })" % ((n,) + sh), unwind=n + 4, unwindset={"memcmp.0": 3},
                             mem_gb=6, timeout_s=1200, sub="C11c placement terminates for any stated line (0 ..= isize::MAX/2)",
                             must_cover=["stated line far behind the end of the file"], unwind_is_violation=True,
                             params=dict(file_lines=n, shape=list(sh), stated_line="any 0..=2^62")))
    from . import _mir
    return {
        "mir_vcs": [{"name": "build_filepatch: a file patch marked as a rename has both names real (its consumers unwrap them)", "function": "FilePatchMetadata::build_filepatch", "target": "lib",
                     "run": lambda f, v, w: _mir.vc_rename_has_both_names(f, v, w)}],
        "instances": inst,
        "level": "model_checking",
        "functions": ["parse_number_usize", "parse_hunk_line_and_count", "parse_hunk_header", "parse_hunk_line", "parse_hunk", "parse_oct3", "parse_c_string",
                      "parse_filename", "parse_filename_direct", "parse_mode", "parse_git_hash", "parse_metadata_line", "parse_git_metadata_line",
                      "parse_patch_line", "parse_git_patch_line", "newline", "take_line_skip", "take_line_incl", "split_at_cond", "error_line/error_word/error_sequence"],
        "symbolic": "every byte of the input buffer (concrete length per instance); digit strings of 1/10/19/20/21 symbolic digits in each numeric header field",
        "bounds": {"buffer_bytes": "<= 12 (sub-parsers), keyword + <= 10 (metadata lines)", "digit_strings": DIGITS, "unwind": "buffer length + 5, unwinding assertions on"},
        "assumptions": [
            "std::str::from_utf8 replaced by a stub that asserts ASCII input (both call sites pass digit strings)",
            "stand-in crate memchr (byte loop): same results as the real crate; replay uses the real one",
            "Kani models allocation as never failing: the capacity assertion (<= input length) stands in for 'memory in proportion to the input'",
        ],
        "outside": ["whole-file parse_patch over symbolic line sequences (thorough tier family C11c, where it fits)", "read_series_file (File + BufReader + getopts)", "stack depth"],
        "explanation": "every sub-parser is run on fully symbolic buffers: no panic, overflow, out-of-bounds or unwrap-on-None is reachable, it terminates within the unwinding bound, "
                       "and on success the remainder is a strict suffix of the input; numeric fields up to and beyond 2^64 either give the decimal value or an error",
    }


def replay_candidate(v, work, log):
    from .. import scenarios
    return scenarios.replay_for("C11", v, work, log)
