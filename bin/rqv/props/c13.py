"""C13 — reject files hold exactly the failed hunks: guard part over MIR (writer part added by the Kani family; DESIGN.md §2 C13)."""
from .. import mirvc
from . import _mir


def mir_vcs():
    return [
        {"name": "rollback_and_save_rej_files: .rej only for report.failed() and index == rejected", "function": "rollback_and_save_rej_files", "target": "bin",
         "run": lambda f, v, w: _mir.vc_rej_only_failed(f, v, w)},
        {"name": "rollback_and_save_rej_files: Ok only when the stack top is not of the rejected patch (no arm leaves the loop early)", "function": "rollback_and_save_rej_files", "target": "bin",
         "run": lambda f, v, w: _mir.vc_rej_pass_complete(f, v, w)},
        {"name": "make_rej_filename: the name is made from the file's own path by with_extension / with_file_name (directory kept)", "function": "make_rej_filename", "target": "bin",
         "run": lambda f, v, w: _mir.vc_rej_name_beside_file(f, v, w)},
        {"name": "apply_modify (normal mode): every recorded hunk report comes from trying that hunk (no hunk written off after an earlier failure)", "function": "TextFilePatch::apply_modify", "target": "lib",
         "run": lambda f, v, w: _mir.vc_every_hunk_tried(f, v, w)},
        {"name": "apply_worker: file patches of the broken patch are still attempted, later ones are not", "function": "apply_worker", "target": "bin",
         "run": lambda f, v, w: _mir.vc_worker_stop_strict(f, v, w)},
        {"name": "sequential: rollback (and rejects) of the failing patch happen before save", "function": "sequential::apply_patches", "target": "bin",
         "run": lambda f, v, w: _mir.vc_sequential_order(f, v, w)},
    ]


def spec(tier, seed):
    from . import c13_kani
    k = c13_kani.spec_part(tier, seed)
    return {
        "instances": k["instances"],
        "mir_vcs": mir_vcs(),
        "level": "model_checking",
        "engine": "Kani/CBMC on write_rej_to + make_rej_filename; mirvc (z3) on the drivers' MIR for the guards",
        "functions": k["functions"] + ["TextFilePatch::apply_modify (MIR: every hunk tried)", "AppliedState::rollback_and_save_rej_files (MIR)", "parallel::apply_worker (MIR)", "sequential::apply_patches (MIR)"],
        "symbolic": k["symbolic"] + "; MIR: report.failed(), patch indices, earliest broken index",
        "bounds": dict(k["bounds"], loop_unrolling=mirvc.UNROLL),
        "assumptions": k["assumptions"] + ["MIR VCs: callees havoc'd except the model table; candidates replayed through the real binary"],
        "outside": k["outside"] + ["which .rej files exist on disk across workers"],
        "explanation": k["explanation"],
    }


def replay_candidate(v, work, log):
    from .. import scenarios
    return scenarios.replay_for("C13", v, work, log)
