"""C12 — write-then-parse preserves a parsed patch; writing is a fixed point (DESIGN.md §2 C12)."""
from ..kani import Instance
from . import rotate, FROM_UTF8_STUB, writer_loops
from .c11 import bytes_lit

HEADERS = [(o, n, a, b) for (a, b) in ((1, 1), (0, 2), (2, 0), (3, 1)) for (o, n) in ((0, 0), (1, 1), (9, 10), (99, 98))]
BODIES = [("-+", 4, 4, False, False), (" -", 0, 0, False, False), ("+ ", 2, 2, False, False), ("-+", 0, 0, True, False), ("-+", 0, 0, False, True),
          (" +", 1, 1, False, True), ("+", 5, 5, False, False), ("-", 5, 5, False, False), ("++", 3, 3, False, True), (" - ", 1, 1, False, False), ("-+ ", 1, 1, False, False)]
FILES = [
    ("plain", b"--- f\n+++ f\n@@ -1 +1 @@\n-x\n+y\n"),
    ("create", b"--- /dev/null\n+++ f\n@@ -0,0 +1 @@\n+y\n"),
    ("delete", b"--- f\n+++ /dev/null\n@@ -1 +0,0 @@\n-x\n"),
    ("git_modes", b"diff --git f f\nold mode 100644\nnew mode 100755\n--- f\n+++ f\n@@ -1 +1 @@\n-x\n+y\n"),
    ("git_rename", b"diff --git f g\nrename from f\nrename to g\n--- f\n+++ g\n@@ -1 +1 @@\n-x\n+y\n"),
    ("git_index", b"diff --git f f\nindex 1234567..89abcde\n--- f\n+++ f\n@@ -1 +1 @@\n-x\n+y\n"),
    ("git_delete_mode", b"diff --git f f\ndeleted file mode 100644\n--- f\n+++ /dev/null\n@@ -1 +0,0 @@\n-x\n"),
    ("git_new_mode", b"diff --git f f\nnew file mode 100644\n--- /dev/null\n+++ f\n@@ -0,0 +1 @@\n+y\n"),
    ("orig_names", b"--- f.orig\n+++ f\n@@ -1 +1 @@\n-x\n+y\n"),
    ("mode_only", b"diff --git f f\nold mode 100644\nnew mode 100755\n"),
    ("rename_only", b"diff --git f g\nrename from f\nrename to g\n"),
]


def spec(tier, seed):
    q = tier == "quick"
    inst = []
    for (o, n, a, b) in (rotate(HEADERS, seed, 6) if q else HEADERS):
        inst.append(Instance("c12i_hdr_o%d_n%d_%d_%d" % (o, n, a, b), "parser", "t_write_header(%d, %d, %d, %d)" % (o, n, a, b), unwind=26, unwindset={"memcmp.0": 6},
                             stubs=[FROM_UTF8_STUB], mem_gb=14, timeout_s=1500, sub="C12 (i) hunk header round trip", params=dict(old_start=o, new_start=n, old_lines=a, new_lines=b)))
    for (ops, o, n, a, b) in (BODIES[:5] if q else BODIES):
        k = len(ops)
        arr = ", ".join("b'%s'" % c for c in ops)
        nm = "c12ii_%s_o%d%s%s" % (ops.replace(" ", "c").replace("-", "m").replace("+", "p"), o, "_nnlo" if a else "", "_nnln" if b else "")
        nold = sum(1 for c in ops if c != "+")
        nnew = sum(1 for c in ops if c != "-")
        hdr = "@@ -%d,%d +%d,%d @@" % (o if nold == 0 else o + 1, nold, n if nnew == 0 else n + 1, nnew)
        inst.append(Instance(nm, "parser", "t_write_body::<%d>([%s], %d, %d, %s, %s, %s)" % (k, arr, o, n, str(a).lower(), str(b).lower(), bytes_lit(hdr.encode())), unwind=60,
                             unwind_fns=dict(writer_loops(k, 160), **{"libpatch::patch::unified::parser::parse_hunk.0": k + 2}),
                             unwindset={"memcmp.0": 6}, stubs=[FROM_UTF8_STUB], mem_gb=12, timeout_s=2400,
                             sub="C12 (ii) hunk body round trip: edit script from the matrix (distinct positions carry distinct lines), symbolic bytes",
                             must_cover=["round trip done"], params=dict(edit_script=ops, start=o, no_newline_old_last=a, no_newline_new_last=b)))
    # (ii') writer lemma by record scan (the direct round trip through the parser does not finish even for 2 lines:
    # the layout of the written body depends on symbolic line equalities, so the parser runs on a symbolic-layout buffer)
    for (ko, kn) in []:   # does not finish even for one line per side (symbolic layout): kept for reference, not run
        hdr = "@@ -%d,%d +%d,%d @@" % (3 if ko == 0 else 4, ko, 3 if kn == 0 else 4, kn)
        inst.append(Instance("c12ii_scan_%d_%d" % (ko, kn), "parser", "t_write_scan::<%d, %d>(%s)" % (ko, kn, bytes_lit(hdr.encode())), unwind=max(26, 3 * (ko + kn) + 8),
                             unwindset={"memcmp.0": 4}, mem_gb=12, timeout_s=2400, sub="C12 (ii') writer lemma: records are the two sides in order",
                             must_cover=["no context record"], params=dict(old_lines=ko, new_lines=kn, bytes="symbolic, 4-letter alphabet")))
    for nm, text in (FILES[:7] if q else FILES):
        inst.append(Instance("c12iii_%s" % nm, "parser", "t_write_file(%s)" % bytes_lit(text), unwind=max(len(text), 120) + 4, unwindset={"memcmp.0": 20},
                             stubs=[FROM_UTF8_STUB], mem_gb=10, timeout_s=2400, sub="C12 (iii) file header round trip (concrete)", must_cover=["file round trip done"],
                             params=dict(template=nm)))
    from . import _mir
    return {
        "instances": inst,
        "mir_vcs": [{"name": "start lines survive write-then-parse for every value (write_header_to x parse_hunk::target_line)", "function": "write_header_to", "target": "lib",
                     "run": lambda f, v, w: _mir.vc_start_line_roundtrip(f, v, w)}],
        "level": "model_checking",
        "functions": ["Hunk::write_header_to", "TextHunk::write_to (find_closest_match)", "write_file_patch_header_to", "FilePatch::write_to", "parse_hunk_header", "parse_hunk", "parse_patch"],
        "symbolic": "(ii) every line byte (4-letter alphabet incl. backslash); (i)/(iii) concrete: start lines / header templates from the matrix",
        "bounds": {"lines_per_hunk": "<= 3", "start_lines": [0, 1, 9, 10, 99], "file_header_templates": len(FILES)},
        "assumptions": ["output goes to a fixed-size sink implementing io::Write (no allocation)", "from_utf8 stub, memchr stand-in; replay on the real ones",
                        "prefix/suffix context *counts* may legitimately change when a removed and an added line are equal: only line sequences and start lines are compared",
                        "names without white-space or quotes (a name that needs quoting is a recorded finding: the writer does not quote)"],
        "outside": ["hunks with more than 3 lines (symbolic output layout makes the parser run on a buffer of symbolic length)", "garbage between file patches, patch header text"],
        "explanation": "write(parse(x)) is parsed back and compared structurally; write(parse(write(p))) is compared bytewise",
    }
