"""C12 — write-then-parse preserves a parsed patch; writing is a fixed point (DESIGN.md §2 C12)."""
from ..kani import Instance
from . import rotate, FROM_UTF8_STUB, writer_loops
from .c11 import bytes_lit

HEADERS = [(o, n, a, b) for (a, b) in ((1, 1), (0, 2), (2, 0), (3, 1)) for (o, n) in ((0, 0), (1, 1), (9, 10), (99, 98))]
BODIES = [("-+", 4, 4, False, False), (" -", 0, 0, False, False), ("+ ", 2, 2, False, False), ("-+", 0, 0, True, False), ("-+", 0, 0, False, True),
          (" +", 1, 1, False, True), ("+", 5, 5, False, False), ("-", 5, 5, False, False), ("++", 3, 3, False, True), (" - ", 1, 1, False, False), ("-+ ", 1, 1, False, False)]
FILES = [
    ("plain", b"--- f\n+++ f\n@@ -1 +1 @@\n-x\n+y\n"),
    ("create", b"--- /dev/null\n+++ f\n@@ -0,0 +1 @@\n+y\n"),
    ("delete", b"--- f\n+++ /dev/null\n@@ -1 +0,0 @@\n-x\n"),
    ("git_modes", b"diff --git f f\nold mode 100644\nnew mode 100755\n--- f\n+++ f\n@@ -1 +1 @@\n-x\n+y\n"),
    ("git_rename", b"diff --git f g\nrename from f\nrename to g\n--- f\n+++ g\n@@ -1 +1 @@\n-x\n+y\n"),
    ("git_index", b"diff --git f f\nindex 1234567..89abcde\n--- f\n+++ f\n@@ -1 +1 @@\n-x\n+y\n"),
    ("git_delete_mode", b"diff --git f f\ndeleted file mode 100644\n--- f\n+++ /dev/null\n@@ -1 +0,0 @@\n-x\n"),
    ("git_new_mode", b"diff --git f f\nnew file mode 100644\n--- /dev/null\n+++ f\n@@ -0,0 +1 @@\n+y\n"),
    ("orig_names", b"--- f.orig\n+++ f\n@@ -1 +1 @@\n-x\n+y\n"),
    ("mode_only", b"diff --git f f\nold mode 100644\nnew mode 100755\n"),
    ("rename_only", b"diff --git f g\nrename from f\nrename to g\n"),
]


SCANS_Q = [(1, 1), (0, 1), (1, 0)]
SCANS_T = [(1, 1), (0, 1), (1, 0), (2, 1), (1, 2), (0, 2), (2, 0), (2, 2)]


def spec(tier, seed):
    q = tier == "quick"
    inst = []
    for (o, n, a, b) in (rotate(HEADERS, seed, 4) if q else HEADERS):
        inst.append(Instance("c12i_hdr_o%d_n%d_%d_%d" % (o, n, a, b), "parser", "t_write_header(%d, %d, %d, %d)" % (o, n, a, b), unwind=26, unwindset={"memcmp.0": 6},
                             stubs=[FROM_UTF8_STUB], mem_gb=14, timeout_s=1500, sub="C12 (i) hunk header round trip (real formatter, concrete numbers)",
                             params=dict(old_start=o, new_start=n, old_lines=a, new_lines=b)))
    # (ii') writer lemma by record scan.  The direct round trip through the parser does not finish even for 2 lines: the layout
    # of the written body depends on symbolic line equalities, so the nom parser would run on a buffer of symbolic layout.
    for (ko, kn) in (SCANS_Q if q else SCANS_T):
        hdr = "@@ -%d,%d +%d,%d @@" % (3 if ko == 0 else 4, ko, 3 if kn == 0 else 4, kn)
        k = max(ko, kn, 1)
        inst.append(Instance("c12ii_scan_%d_%d" % (ko, kn), "parser", "t_write_scan::<%d, %d>(%s)" % (ko, kn, bytes_lit(hdr.encode())), unwind=max(20, 3 * (ko + kn) + 8),
                             unwindset={"memcmp.0": 4}, unwind_fns=writer_loops(k, 64), mem_gb=12, timeout_s=2400,
                             sub="C12 (ii') writer lemma: the written records are the two sides in order, context only for equal lines",
                             must_cover=["no context record"], params=dict(old_lines=ko, new_lines=kn, bytes="symbolic, 4-letter alphabet incl. backslash")))
    from . import _mir
    return {
        "instances": inst,
        "mir_vcs": [{"name": "write_file_patch_header_to: a mode the file patch carries gets its line, whatever the other side's mode is", "function": "write_file_patch_header_to", "target": "lib",
                     "run": lambda f, v, w: _mir.vc_header_writes_modes(f, v, w)},
                    {"name": "find_closest_match, any length: ranges 0..(a+b) / 0..min(i+1,a); exhausted => (a.len, b.len); matches inside and on the diagonal", "function": "find_closest_match", "target": "lib",
                     "run": lambda f, v, w: _mir.vc_closest_match_space(f, v, w)},
                    {"name": "start lines survive write-then-parse for every value (write_header_to x parse_hunk::target_line)", "function": "write_header_to", "target": "lib",
                     "run": lambda f, v, w: _mir.vc_start_line_roundtrip(f, v, w)}],
        "level": "model_checking",
        "functions": ["Hunk::write_header_to", "TextHunk::write_to (find_closest_match)", "parse_hunk_header", "parse_hunk (target_line, MIR)", "write_file_patch_header_to (MIR: mode lines)"],
        "symbolic": "(ii') every line byte (4-letter alphabet incl. backslash); (i) concrete start lines / counts from the matrix through the real formatter; "
                    "start-line arithmetic: every 64-bit value (MIR VC)",
        "bounds": {"lines_per_hunk_side": "<= 1 (quick), <= 2 (thorough)", "start_lines": [0, 1, 9, 10, 99], "loop_unrolling": "per-loop bounds with unwinding assertions"},
        "assumptions": ["output goes to a fixed-size sink implementing io::Write (no allocation)", "from_utf8 stub, memchr stand-in; replay on the real ones",
                        "(ii') the hunk header text is canned (core::fmt is only executed in (i)); with C01 lemma 1 (a text of such records parses to exactly its edit script) "
                        "the scan lemma gives write-then-parse for the body; the writer reads nothing but the two sequences and the start lines, so writing the re-parsed hunk reproduces the text",
                        "prefix/suffix context *counts* may legitimately change when a removed and an added line are equal: only line sequences and start lines are compared"],
        "outside": ["the direct parse(write(h)) round trip on symbolic bytes and hunks with more than 2 lines per side (formula exceeds 12 GB)",
                    "file headers other than the mode lines (names, hashes, rename flag; the exact keywords): the formatter's output is not observable with a canned sink and the real formatter + parse_patch "
                    "exceeds 10 GB even on a concrete 30-byte patch; the 'deleted file mode' keyword defect named in the property text was repaired by hand (fix: c510d98) and is covered by no check",
                    "lines without terminator inside the writer ('\\ No newline' tag emission)", "garbage between file patches, patch header text"],
        "explanation": "hunk level only: header numbers round-trip (Kani on concrete numbers through the real formatter, MIR VC for every value), and the body the writer emits is, record by record, "
                       "the old and new sequences in order",
    }


def replay_candidate(v, work, log):
    from .. import replay
    if "write_file_patch_header_to" in (v.get("name") or ""):
        from .. import scenarios
        return scenarios.replay_for("C12", v, work, log)
    return replay.replay_by_sweep("C12", v, work, log, module="parser", testname="replay_sweep_writer")
