"""C03 — an applied file patch changes exactly the lines its hunks mark (DESIGN.md §2 C03)."""
from ._apply import apply_inst
from . import rotate


def spec(tier, seed):
    inst = []
    S = apply_inst
    # two hunks, N=3, both stated lines symbolic: reaches every overlap arrangement
    sym = [
        ([(0, 1, 0, 0), (2, 1, 0, 0)], 0, "fwd"),
        ([(0, 1, 1, 1), (1, 1, 0, 0)], 0, "fwd"),
        ([(1, 1, 0, 0), (0, 1, 1, 0)], 0, "fwd"),
        ([(0, 1, 0, 1), (1, 0, 1, 0)], 1, "fwd"),
        ([(0, 0, 1, 1), (1, 1, 0, 0)], 0, "rev"),
    ]
    conc = []
    for n in (4,):
        for sh in ([(0, 1, 1, 1), (1, 1, 0, 0)], [(1, 1, 2, 0), (0, 1, 0, 1)], [(1, 0, 1, 1), (1, 1, 1, 0)],
                   [(0, 1, 0, 0), (2, 0, 1, 0)], [(1, 1, 0, 1), (1, 0, 1, 1)]):
            for l1 in range(0, 3):
                for l2 in range(l1, n + 1):
                    for f in (0, 1):
                        for d in ("fwd", "rev"):
                            conc.append((n, sh, [l1, l2], f, d))
    if tier == "quick":
        for sh, f, d in sym[:2]:
            inst.append(S("c03", 3, sh, [None, None], f, d, ["recon"], "C03 two hunks, symbolic stated lines", mem_gb=12, timeout=1500))
        # fuzz-1 instances need > 9 GB: thorough tier.  Both directions every time (the reversed direction swaps the hunk's two
        # sides: a sign slip there only shows with a first hunk that changes the line count, which all these shapes do)
        f0 = [c for c in conc if c[3] == 0]
        for (n, sh, ls, f, d) in rotate([c for c in f0 if c[4] == "fwd"], seed, 2) + rotate([c for c in f0 if c[4] == "rev"], seed, 2):
            inst.append(S("c03", n, sh, ls, f, d, ["recon"], "C03 two hunks, stated lines from the matrix", mem_gb=9))
    else:
        for sh, f, d in sym:
            inst.append(S("c03", 3, sh, [None, None], f, d, ["recon"], "C03 two hunks, symbolic stated lines", mem_gb=12, timeout=2400))
        for (n, sh, ls, f, d) in conc:
            inst.append(S("c03", n, sh, ls, f, d, ["recon"], "C03 two hunks, stated lines from the matrix", mem_gb=9 if f == 0 else 15, timeout=2400))
    from . import _mir
    return {
        "instances": inst,
        "mir_vcs": [{"name": "apply_modify: offset and frozen line handed from one hunk to the next", "function": "apply_modify", "target": "lib",
                     "run": lambda f, v, w: _mir.vc_apply_bookkeeping(f, v, w)}],
        "level": "model_checking",
        "functions": ["TextFilePatch::apply", "apply_internal", "apply_modify (match phase, last_frozen_line, modification_offset, splice loop)",
                      "try_apply_hunk", "HunkView::*", "FilePatchApplyReport::*"],
        "symbolic": "every file-line and hunk-line byte; both stated lines (symbolic family) — the solver thereby ranges over all offsets, "
                    "overlaps of contexts with contexts and with changed lines, and partial failures",
        "bounds": {"file_lines_N": "3 (symbolic stated lines), 4 (matrix)", "hunks": 2, "lines_per_hunk_side": "<= 3", "fuzz_limit": "<= 1"},
        "assumptions": [
            "content vectors are the fixed-capacity VVec stand-in (checked against std Vec by lemma harnesses and a native differential test); replay uses the real Vec",
            "stand-in crate memchr, stub crate backtrace (not reached)",
            "1-byte lines; both stated lines of a hunk equal",
            "analyses: AnalysisSet::default(), fn_analysis_note_noop",
        ],
        "outside": ["more than two hunks; files longer than 4 lines", "on-disk result (save_modified_file is I/O)"],
        "explanation": "bounded model checking of the real apply_modify against a changed-regions-only reconstruction from the hunk reports",
    }


def replay_candidate(v, work, log):
    from .. import replay
    return replay.replay_by_sweep("C03", v, work, log)


FALLBACK_SWEEP = ("patch", "replay_sweep_multi_hunk")
