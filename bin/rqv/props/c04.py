"""C04 — undoing an application restores content, existence and permissions (DESIGN.md §2 C04)."""
from ..kani import Instance
from ._apply import apply_inst
from . import rotate


def spec(tier, seed):
    inst = []
    # (b)/(c) create / delete kinds, all flag combinations, symbolic bytes and permission modes
    for kc in (True, False):
        for fwd in (True, False):
            name = "c04b_%s_%s" % ("create" if kc else "delete", "fwd" if fwd else "rev")
            inst.append(Instance(name, "patch", "cd_group(%s, %s)" % (str(kc).lower(), str(fwd).lower()), unwind=6,
                                 unwindset={"memcmp.0": 3}, features=True, cap=4, mem_gb=4, timeout_s=900, sub="C04b create/delete + permissions",
                                 must_cover=["create/delete applied", "create/delete failed"],
                                 params=dict(kind="create" if kc else "delete", direction="fwd" if fwd else "rev",
                                             names="old only / new only / both", file_state="absent / empty / two lines",
                                             permissions="symbolic Option<mode> for old, new, file")))
    # (e) rename undo at ModifiedFile level
    for st in (0, 1, 2):
        inst.append(Instance("c04e_rename_b%d" % st, "patch", "rename_case(%d)" % st, unwind=12, unwindset={"memcmp.0": 3},
                             features=False, mem_gb=4, timeout_s=600, sub="C04e rename undo (move_out/move_in)",
                             params=dict(target_state=["absent", "exists empty", "exists non-empty"][st])))
    # (a) modify: apply + rollback
    one = []
    for sh in ((1, 1, 1, 0), (0, 1, 1, 1), (1, 1, 1, 1), (1, 0, 1, 1), (1, 1, 0, 1), (0, 1, 0, 0), (0, 0, 1, 0), (2, 1, 1, 1)):
        for f in (0, 1):
            for d in ("fwd", "rev"):
                one.append((3, [sh], [None], f, d))
    two = []
    for sh in ([(0, 1, 1, 1), (1, 1, 0, 0)], [(1, 1, 2, 0), (0, 1, 0, 1)], [(0, 1, 0, 0), (2, 0, 1, 0)], [(1, 0, 1, 1), (1, 1, 1, 0)],
               [(0, 1, 0, 2), (1, 1, 0, 0)]):
        for l1 in range(0, 2):
            for l2 in range(l1, 4):
                for f in (0, 1):
                    for d in ("fwd", "rev"):
                        two.append((3, sh, [l1, l2], f, d))
    # measured: one hunk N=3 symbolic stated line 230 s / 5 GB; two hunks N=3 stated lines from the matrix 540 s / 11 GB
    if tier == "quick":
        # fuzz-1 instances with a symbolic stated line exceed 9 GB; two-hunk rollback takes 540 s: both are thorough-tier material
        ch1 = rotate([t for t in one if t[3] == 0], seed, 4)
        ch2 = []
    else:
        ch1, ch2 = [t for t in one if t[3] == 0] + [t for t in one if t[3] == 1][:4], rotate([t for t in two if t[3] == 0], seed, 24)
    for (n, sh, ls, f, d) in ch1:
        inst.append(apply_inst("c04a", n, sh, ls, f, d, ["rollback"], "C04a modify: apply + rollback, one hunk, symbolic stated line", mem_gb=9, timeout=1800))
    for (n, sh, ls, f, d) in ch2:
        inst.append(apply_inst("c04a", n, sh, ls, f, d, ["rollback"], "C04a modify: apply + rollback, two hunks", mem_gb=15, timeout=2400))
    from . import _mir
    mir_vcs = [
        {"name": "ModifiedFiles::rollback: undo in the recorded direction", "function": "ModifiedFiles::rollback", "target": "bin",
         "run": lambda f, v, w: _mir.vc_rollback_direction(f, v, w, r"::rollback$", "c04d1", sig=r"_1: &mut ModifiedFiles")},
        {"name": "save_files_worker: undo in the recorded direction", "function": "parallel::save_files_worker", "target": "bin",
         "run": lambda f, v, w: _mir.vc_rollback_direction(f, v, w, r"^save_files_worker$", "c04d2")},
        {"name": "diagnostics::test_apply_with_fuzzes: undo in the recorded direction", "function": "diagnostics::test_apply_with_fuzzes", "target": "bin",
         "run": lambda f, v, w: _mir.vc_rollback_direction(f, v, w, r"^test_apply_with_fuzzes$", "c04d3")},
        {"name": "diagnostics::test_apply_after_reverting_other: undo in the recorded direction", "function": "diagnostics::test_apply_after_reverting_other", "target": "bin",
         "run": lambda f, v, w: _mir.vc_rollback_direction(f, v, w, r"^test_apply_after_reverting_other$", "c04d4")},
        {"name": "apply_modify (rollback mode): each hunk is undone through the view of the fuzz level recorded for it", "function": "TextFilePatch::apply_modify", "target": "lib",
         "run": lambda f, v, w: _mir.vc_rollback_view_recorded(f, v, w)},
        {"name": "ModifiedFiles::rollback: undo starts at final_filename; a rename is undone into target_filename", "function": "ModifiedFiles::rollback", "target": "bin",
         "run": lambda f, v, w: _mir.vc_rename_undo_target(f, v, w)},
        {"name": "ModifiedFiles::rollback: a rename undo restores the renamed-over file", "function": "ModifiedFiles::rollback", "target": "bin",
         "run": lambda f, v, w: _mir.vc_rename_undo_restores(f, v, w)},
    ]
    return {
        "instances": inst,
        "mir_vcs": mir_vcs,
        "level": "model_checking",
        "functions": ["TextFilePatch::rollback", "TextFilePatch::apply", "apply_internal (permission bookkeeping)", "apply_modify", "apply_create",
                      "apply_delete", "try_apply_hunk (ApplyMode::Rollback)", "ModifiedFile::move_out", "ModifiedFile::move_in",
                      "ModifiedFile::new_non_existent"],
        "symbolic": "every line byte, stated line (one-hunk family), permission modes Option<u32> of patch and file; partial application arises from the symbolic bytes",
        "bounds": {"file_lines_N": 3, "hunks": "<= 2", "fuzz_limit": "<= 1", "create/delete content": "2 lines", "stack depth": "1 (LIFO by composition: "
                   "rollback reads only (file, patch, report) and apply+rollback is the identity from an arbitrary pre-state within the bound)"},
        "assumptions": [
            "content vectors are the fixed-capacity VVec stand-in (checked against std Vec); replay uses the real Vec",
            "rename undo is checked on ModifiedFile::move_out/move_in with the call sequence of apply_one_file_patch / ModifiedFiles::rollback "
            "reproduced in the harness (the HashMap-keyed wrapper itself is driver code)",
            "1-byte lines; analyses: default set",
        ],
        "outside": ["ModifiedFiles::rollback's HashMap lookups", "on-disk effects of a rollback (save is I/O)", "stacks deeper than one application are covered by composition only"],
        "explanation": "bounded model checking: apply then rollback is the identity on (content, deleted, permissions) for every content/permission value inside each concrete shape; rollback's panic is a checked property",
    }


def replay_candidate(v, work, log):
    from .. import scenarios
    return scenarios.replay_for("C04", v, work, log)


FALLBACK_SWEEP = ("patch", "replay_sweep_multi_hunk")
