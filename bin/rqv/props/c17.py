"""C17 — inconsistent quilt state or arguments are refused cleanly (DESIGN.md §2 C17)."""
import os
import shutil

import z3

from .. import mirvc, native
from . import _mir


DRIVER_PAT = r"(sequential::apply_patches$|ThreadPool::install::<)"


def driver_contract(eng, st, site, dst, callee, args, argv):
    """Assume-guarantee: a driver returning Ok(ApplyResult{applied, skipped}) has applied + skipped == len(config.series_patches)
    without wrap-around (the ApplyResult constructor in both drivers; the sequential one is proved as its own VC under C05)."""
    cfg = eng.fn.debug.get("config")
    if cfg is None:
        raise KeyError("debug local `config` in cmd_push")
    idx = mirvc.struct_field_index("ApplyConfig", "series_patches")
    sl = eng.read_path(st, "%s.%d" % (cfg, idx), "&[SeriesPatch]")
    if not isinstance(sl, mirvc.Ref):
        return None
    ln = eng.obj_len(st, sl.target)
    a = z3.BitVec("c_%s_applied" % site, 64)
    k = z3.BitVec("c_%s_skipped" % site, 64)
    d = z3.BitVec("c_%s_disc" % site, 64)
    st.pc.append(z3.Or(d == 0, d == 1))
    st.pc.append(z3.Implies(d == 0, z3.And(z3.ULE(a, ln), k == ln - a)))
    return {"#disc": d, "@Ok.0": mirvc.Agg("ar_" + site), "@Ok.0.0": a, "@Ok.0.1": k}


def _run_range(fns, variants, work):
    eng, found, n = mirvc.vc_safety(fns, variants, r"^cmd_push$", contracts=[(DRIVER_PAT, driver_contract)])
    witness_ok = n >= 3
    r = mirvc.summarize(eng, found, {"asserts_and_preconditions_checked": n}, work, "c17", witness_ok,
                        "fewer than 3 assert/precondition sites reached in cmd_push")
    return r


def spec(tier, seed):
    return {
        "instances": [],
        "mir_vcs": [
            {"name": "cmd_push: range arithmetic and slice preconditions", "function": "cmd_push", "target": "bin", "run": _run_range},
            {"name": "cmd_push: unknown or already applied goal is refused", "function": "cmd_push", "target": "bin",
             "run": lambda f, v, w: _mir.vc_goal_refused(f, v, w)},
            {"name": "parallel::apply_patches: a load / parse error returns before any worker starts", "function": "parallel::apply_patches", "target": "bin",
             "run": lambda f, v, w: _mir.vc_load_errors_before_workers(f, v, w)},
            {"name": "sequential::apply_patches: a load / parse error returns before anything is saved", "function": "sequential::apply_patches", "target": "bin",
             "run": lambda f, v, w: _mir.vc_sequential_order(f, v, w)},
        ],
        "level": "other",
        "engine": "mirvc: bounded symbolic execution of the nightly MIR of cmd.rs::cmd_push, VCs decided by z3 4.8.12, cross-checked with cvc5",
        "functions": ["cmd::cmd_push (MIR)"],
        "symbolic": "series length, applied-patches length (first_patch), goal variant and count, result of Iterator::position (None | Some(i < len)); all other call results havoc'd",
        "bounds": {"loop_unrolling": mirvc.UNROLL, "integers": "64-bit bit-vectors", "callees": "havoc'd except the model table in mirvc.py"},
        "assumptions": [
            "callees other than the modelled ones return arbitrary values and do not panic (panics inside std/getopts are outside this VC)",
            "model table: Vec::len, Deref, cmp::min/max, Try::branch / FromResidual on Option/Result, Iterator::position => None | Some(i < len), Index<Range> requires start <= end <= len",
            "a sat answer is only a candidate: it is replayed through the real binary on a generated workspace before being reported",
        ],
        "outside": ["the tree snapshot after a refused push (I/O)", "series-file parsing (getopts on BufReader lines)"],
        "explanation": "every MIR assert (checked arithmetic) and the Index<Range> precondition of series_patches[first_patch..last_patch] in cmd_push "
                       "are proved unreachable-to-fail for all 64-bit values of the lengths, goal and position result, or a concrete counter-workspace is produced and run",
        "rule": "one evaluation = one solver query (path feasibility or negated assertion); non-trivial = a VC whose function was explored to completion with at least one assertion site checked",
    }


# ----------------------------------------------------------------------------------------- replay
def _ws(work, name, series, applied):
    root = os.path.join(work, "ws_" + name)
    shutil.rmtree(root, ignore_errors=True)
    patches = {}
    files = {"f.txt": b"a\nb\nc\n"}
    for i, s in enumerate(sorted(set(series + applied))):
        patches[s] = ("--- a/g%d.txt\n+++ b/g%d.txt\n@@ -0,0 +1 @@\n+x\n" % (i, i)).encode()
    native.make_workspace(root, files, series, patches, applied)
    return root


def replay_candidate(v, work, log):
    """Turn solver candidates into concrete workspaces and run the real binary: exit status must be 0/1."""
    out = {"reproduced": False, "name": v["name"], "path": None, "why": "", "tags": []}
    binary = native.build_binary(work, log)
    scenarios = []
    for c in v.get("candidates", []):
        what = c.get("what", "")
        if "overflow" in what:
            scenarios.append(("count-overflow", ["p1", "p2"], ["p1"], ["18446744073709551615"]))
            scenarios.append(("count-overflow-max", ["p1", "p2", "p3"], ["p1", "p2"], ["18446744073709551614"]))
        if "slice index" in what:
            scenarios.append(("applied-longer-than-series", ["p1"], ["p1", "p2"], []))
            scenarios.append(("applied-longer-than-series-a", ["p1"], ["p1", "p2"], ["-a"]))
            scenarios.append(("applied-longer-empty-series", [], ["p1"], ["-a"]))
    seen = set()
    for name, series, applied, args in scenarios:
        if name in seen:
            continue
        seen.add(name)
        root = _ws(work, name, series, applied)
        before = native.snapshot(root)
        rc, so, se = native.run_push(binary, root, args)
        after = native.snapshot(root)
        crashed = rc not in (0, 1)
        log("    replay %-34s exit=%d %s" % (name, rc, (se.strip().split("\n")[-1] if se.strip() else "")[:120]))
        if crashed:
            d = os.path.join(mirvc.ov.VERIF, "replays", "C17")
            os.makedirs(d, exist_ok=True)
            p = os.path.join(d, name + ".sh")
            with open(p, "w") as f:
                f.write("#!/bin/sh\n# C17 counterexample: rapidquilt push exits %d (crash) instead of 1\n" % rc)
                f.write("set -e\nW=$(mktemp -d)\nmkdir -p $W/patches $W/.pc\n")
                f.write("printf '%s' > $W/series\n" % "".join(s + "\\n" for s in series))
                f.write("printf '%s' > $W/.pc/applied-patches\n" % "".join(s + "\\n" for s in applied))
                for s in sorted(set(series + applied)):
                    f.write("printf -- '--- a/g\\n+++ b/g\\n@@ -0,0 +1 @@\\n+x\\n' > $W/patches/%s\n" % s)
                f.write("${RAPIDQUILT:-rapidquilt} push -d $W %s; echo exit=$?\n" % " ".join(args))
            out.update(reproduced=True, path=p, what="rapidquilt push %s with series=%s applied=%s exits %d: %s" %
                       (" ".join(args), series, applied, rc, se.strip().split("\n")[0][:160]), tags=[name])
            return out
    from .. import scenarios
    r2 = scenarios.replay_for("C17", v, work, log)
    if r2["reproduced"]:
        return r2
    out["why"] = "no generated workspace made the real binary crash or change the tree (candidate is an artefact of havoc'd callees)"
    return out
