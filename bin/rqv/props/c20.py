"""C20 — raising the fuzz limit never changes a push that succeeded (DESIGN.md §2 C20)."""
from ._apply import apply_inst
from . import rotate


def spec(tier, seed):
    # measured: one hunk, N=4, stated line from the matrix: 80-105 s, 2.3 GB.  A symbolic stated line or a second
    # hunk (two applies x two splices) exceeds 12 GB, so the stated line is enumerated by the driver instead.
    one = []
    for sh in ((1, 1, 1, 1), (0, 1, 1, 1), (1, 1, 1, 0), (2, 1, 1, 1), (1, 1, 0, 2), (0, 1, 1, 0), (0, 0, 1, 0), (2, 0, 1, 2), (1, 1, 1, 2)):
        for line in range(0, 5):
            for f in (0, 1):
                for d in ("fwd", "rev"):
                    one.append((4, [sh], [line], f, d))
    two = []
    for sh in ([(0, 1, 0, 0), (1, 1, 0, 0)], [(0, 1, 1, 0), (0, 1, 0, 1)]):
        for l2 in (1, 2):
            two.append((2, sh, [0, l2], 0, "fwd"))
    if tier == "quick":
        ch = rotate(one, seed, 12)
        ch2 = []
    else:
        ch, ch2 = one, two
    inst = []
    for (n, sh, ls, f, d) in ch:
        inst.append(apply_inst("c20", n, sh, ls, f, d, ["mono", "lowest"], "C20 F vs F+1 on equal copies; C02b lowest level first", mem_gb=6))
    for (n, sh, ls, f, d) in ch2:
        inst.append(apply_inst("c20", n, sh, ls, f, d, ["mono"], "C20 two hunks, N=2", mem_gb=14, timeout=2400))
    from . import _mir
    return {
        "instances": inst,
        "mir_vcs": [{"name": "apply_modify: offset and frozen line handed from one hunk to the next", "function": "apply_modify", "target": "lib",
                     "run": lambda f, v, w: _mir.vc_apply_bookkeeping(f, v, w)}],
        "level": "model_checking",
        "functions": ["TextFilePatch::apply", "apply_modify (fuzz-level loop 0..=min(F, max_useable_fuzz))", "Hunk::max_useable_fuzz", "try_apply_hunk", "HunkView::new"],
        "symbolic": "every file-line and hunk-line byte (all equality patterns); stated lines are enumerated by the instance matrix",
        "bounds": {"file_lines_N": "4 (one hunk, every stated line 0..4 from the matrix), 2 (two hunks, thorough tier)", "fuzz_limits": "F in {0,1} against F+1", "context": "<= 2 per side"},
        "assumptions": ["VVec stand-in for content vectors; replay on the real Vec", "1-byte lines", "--fuzz string -> usize is getopts parsing: outside"],
        "outside": ["fuzz limits above 2", "tree/metadata equality on disk"],
        "explanation": "the same file patch is applied at F and F+1 on equal copies: ok at F implies ok at F+1 with identical per-hunk (line, offset, fuzz) and identical content; "
                       "additionally the recorded fuzz of the first hunk is the least level at which the reference placement finds a position",
    }


def replay_candidate(v, work, log):
    from .. import replay
    return replay.replay_by_sweep("C20", v, work, log)


FALLBACK_SWEEP = ("patch", "replay_sweep_multi_hunk")
