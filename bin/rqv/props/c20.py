"""C20 — raising the fuzz limit never changes a push that succeeded (DESIGN.md §2 C20)."""
from ._apply import apply_inst
from . import rotate


def spec(tier, seed):
    one = []
    for sh in ((1, 1, 1, 1), (0, 1, 1, 1), (1, 1, 1, 0), (2, 1, 1, 1), (1, 1, 0, 2), (0, 1, 1, 0), (0, 0, 1, 0), (2, 0, 1, 2), (1, 1, 1, 2)):
        for f in (0, 1):
            for d in ("fwd", "rev"):
                one.append((4, [sh], [None], f, d))
    two = []
    for sh in ([(0, 1, 1, 1), (1, 1, 0, 0)], [(1, 1, 0, 1), (1, 0, 1, 1)], [(1, 1, 1, 0), (0, 1, 1, 1)]):
        for l1 in (0, 1):
            for l2 in (1, 2, 3):
                for f in (0, 1):
                    two.append((3, sh, [l1, l2], f, "fwd"))
    if tier == "quick":
        ch = rotate(one, seed, 6) + rotate(two, seed, 4)
    else:
        ch = one + two
    inst = []
    for (n, sh, ls, f, d) in ch:
        inst.append(apply_inst("c20", n, sh, ls, f, d, ["mono", "lowest"], "C20 F vs F+1 on equal copies; C02b lowest level first",
                               mem_gb=8, must_cover=["all hunks applied"]))
    return {
        "instances": inst,
        "level": "model_checking",
        "functions": ["TextFilePatch::apply", "apply_modify (fuzz-level loop 0..=min(F, max_useable_fuzz))", "Hunk::max_useable_fuzz", "try_apply_hunk", "HunkView::new"],
        "symbolic": "every line byte; the stated line of single-hunk instances",
        "bounds": {"file_lines_N": "4 (one hunk), 3 (two hunks)", "fuzz_limits": "F in {0,1} against F+1", "context": "<= 2 per side"},
        "assumptions": ["VVec stand-in for content vectors; replay on the real Vec", "1-byte lines", "--fuzz string -> usize is getopts parsing: outside"],
        "outside": ["fuzz limits above 2", "tree/metadata equality on disk"],
        "explanation": "the same file patch is applied at F and F+1 on equal copies: ok at F implies ok at F+1 with identical per-hunk (line, offset, fuzz) and identical content; "
                       "additionally the recorded fuzz of the first hunk is the least level at which the reference placement finds a position",
    }
