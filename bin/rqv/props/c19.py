"""C19 — patch file names can never make a push touch files outside the working tree (DESIGN.md §2 C19)."""
from ..kani import Instance
from . import FROM_UTF8_STUB
from .c11 import bytes_lit

REFUSED = [
    ("dotdot_p1", b"--- a/../v\n+++ b/../v\n@@ -1 +1 @@\n-x\n+y\n", 1),
    ("absolute_p0", b"--- /dev/null\n+++ /etc/v\n@@ -0,0 +1 @@\n+y\n", 0),
    ("quoted_octal", b"--- /dev/null\n+++ \"b/s/\\056\\056/\\056\\056/v\"\n@@ -0,0 +1 @@\n+y\n", 1),
    ("git_line_only", b"diff --git a/../v b/../v\nold mode 100644\nnew mode 100755\n", 1),
    ("old_name_only", b"--- a/../v\n+++ b/w\n@@ -1 +1 @@\n-x\n+y\n", 1),
    ("second_file", b"--- a/f\n+++ b/f\n@@ -1 +1 @@\n-x\n+y\n--- a/g/../../v\n+++ b/g/../../v\n@@ -1 +1 @@\n-x\n+y\n", 1),
]
# (case, old name, new name, strip, refused?)
NAME_PAIRS = [
    ("old_only", "a/../v", "b/w", 1, True),
    ("new_only", "a/w", "b/../v", 1, True),
    ("old_absolute_p0", "/etc/v", "w", 0, True),
    ("create_new_unsafe", None, "b/../../v", 1, True),
    ("delete_old_unsafe", "a/../../v", None, 1, True),
    ("dotdot_inner_old", "a/sub/../../v", "b/w", 1, True),
    ("dotdot_inner_new_p0", "w", "sub/../../v", 0, True),
    ("curdir_then_dotdot", "a/./../v", "b/w", 1, True),
    ("both_safe", "a/d/w", "b/d/w", 1, False),
    ("stripped_away", "../w", "../w", 1, False),
    ("dots_in_names", "a/..w", "b/w..", 1, False),
]
ACCEPTED = [
    ("dotdot_stripped_away", b"--- ../f\n+++ ../f\n@@ -1 +1 @@\n-x\n+y\n", 1),
    ("absolute_stripped", b"--- /f\n+++ /f\n@@ -1 +1 @@\n-x\n+y\n", 1),
    ("dots_in_name", b"--- a/..f\n+++ b/f..\n@@ -1 +1 @@\n-x\n+y\n", 1),
]


def strip_inst(prefix, L, strip, owned, sub, pattern=None):
    """prefix c16: the stripped names bytewise (mode 1); c19: the unsafe-name check (mode 2).
    pattern: None = every byte symbolic over {a . /}; else a string over 'x' (symbolic byte from {a .}) and '/' (constant)."""
    mode = 1 if prefix == "c16" else 2
    if pattern is None:
        mask, tag, alpha = 0xFFFFFFFF, "L%d" % L, "a . /"
    else:
        L = len(pattern)
        mask, tag, alpha = sum(1 << i for i, c in enumerate(pattern) if c == "/"), pattern.replace("/", "s"), "a . (separators fixed by the pattern)"
    return Instance("%s_strip_%s_p%d_%s" % (prefix, tag, strip, "owned" if owned else "borrowed"), "patch",
                    "strip_case_m::<%d>(%d, %d, %d, %s)" % (L, mask, mode, strip, str(owned).lower()), unwind=L + 6, unwindset={"memcmp.0": 8}, features=True, cap=4,
                    mem_gb=8, timeout_s=1800, sub=sub, must_cover=["components left after a real strip"] if mode == 1 and strip > 0 and L > 2 * strip else [],
                    params=dict(name_bytes=L, name_pattern=pattern or "all symbolic", alphabet=alpha, strip=strip, cow="Owned" if owned else "Borrowed"))


def spec(tier, seed):
    q = tier == "quick"
    inst = []
    # strip on symbolic names (the bytes that are left, against the bytewise reference): shared with C16.  The unsafe-name
    # check on a *symbolic* name (Components::any over symbolic bytes) exceeds 8 GB already for 3 bytes; it is decided
    # as a decision table over MIR plus concrete names below.
    for (L, st, ow) in ([(3, 1, False), (3, 2, True)] if q else [(L, st, ow) for L in (3, 4) for st in (0, 1, 2) for ow in (False, True)]):
        inst.append(strip_inst("c16", L, st, ow, "C19/C16 strip leaves exactly the bytes after the first N components"))
    for nm, old, newn, strip, expect in NAME_PAIRS:
        def lit(x):
            return "None" if x is None else 'Some("%s")' % x
        inst.append(Instance("c19_names_%s" % nm, "patch", "unsafe_names(%s, %s, %d, %s)" % (lit(old), lit(newn), strip, str(expect).lower()), unwind=16, unwindset={"memcmp.0": 8},
                             features=True, cap=4, mem_gb=8, timeout_s=1200, sub="C19 both names of a file patch are vetted after strip (concrete names)",
                             params=dict(old=old, new=newn, strip=strip, refused=expect)))
    from . import _mir
    return {
        "instances": inst,
        "mir_vcs": [{"name": "is_unsafe: Prefix, root and '..' components are dangerous, '.' and normal ones are not", "function": "is_unsafe::{closure#0}", "target": "lib",
                     "run": lambda f, v, w: _mir.vc_unsafe_component_table(f, v, w)},
                    {"name": "parse_patch: strip, then the unsafe-name check, then Err or push", "function": "parse_patch", "target": "lib",
                     "run": lambda f, v, w: _mir.vc_parse_patch_refuses_unsafe(f, v, w)}],
        "level": "model_checking",
        "functions": ["FilePatch::strip", "FilePatch::unsafe_filename", "parse_patch (strip -> unsafe_filename -> Err)", "std::path::Path::components (real)"],
        "symbolic": "strip: every byte of the file name over the alphabet {a, ., /} (all arrangements of separators, '.', '..', leading '/'), Borrowed and Owned names, strip level from the matrix; "
                    "component classification: the component kind (MIR); refusal wiring: concrete patch texts",
        "bounds": {"name_bytes": "3 (quick), <= 4 (thorough)", "strip": "0..2", "concrete_name_pairs": len(NAME_PAIRS)},
        "assumptions": ["the file-name lemma of C01 (parse_filename: bytes in = bytes out, quoted or not) carries every spelling of a name to the same bytes",
                        "a name is dangerous iff, after dropping N leading components, a '..' or root component is left (then base_dir.join(name) is not a lexical extension of base_dir)",
                        "symbolic links inside the tree are outside (GNU patch follows them as well unless told otherwise)"],
        "outside": ["names longer than 4 bytes / other alphabets", "the unsafe-name check composed with strip on symbolic names (Components::any over symbolic bytes exceeds 8 GB for 3 bytes)", "that get_or_load / save / backup only ever use names that went through parse_patch (call-site inspection; the drivers obtain FilePatch values from parse_patch only)"],
        "explanation": "the solver decides, for every name over the alphabet and every strip level, that strip drops exactly N components and that the unsafe-name check agrees with a bytewise reference; "
                       "concrete name pairs show both names are vetted; the refusal wiring in parse_patch is an MIR VC (running the nom parser end to end exceeds 10 GB even on a concrete 40-byte patch)",
    }


def replay_candidate(v, work, log):
    from .. import scenarios
    return scenarios.replay_for("C19", v, work, log)
