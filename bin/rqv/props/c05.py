"""C05 — push is all-or-nothing per patch: necessary conditions over the drivers' MIR (DESIGN.md §2 C05)."""
from .. import mirvc
from . import _mir


def spec(tier, seed):
    return {
        "instances": [],
        "mir_vcs": [
            {"name": "sequential: rollback of the failing patch precedes save; loop is left", "function": "sequential::apply_patches", "target": "bin",
             "run": lambda f, v, w: _mir.vc_sequential_order(f, v, w)},
            {"name": "sequential: ApplyResult contract and checked arithmetic", "function": "sequential::apply_patches", "target": "bin",
             "run": lambda f, v, w: _mir.vc_sequential_contract(f, v, w)},
            {"name": "cmd_push: applied-patches gets series[0..applied] only on Ok; result is skipped == 0", "function": "cmd_push", "target": "bin",
             "run": lambda f, v, w: _mir.vc_applied_patches_recorded(f, v, w)},
            {"name": "rollback_and_save_rej_files: only the rejected patch is rolled back / rejected", "function": "rollback_and_save_rej_files", "target": "bin",
             "run": lambda f, v, w: _mir.vc_rej_only_failed(f, v, w)},
            {"name": "rollback_and_save_rej_files: every dropped entry was rolled back first", "function": "rollback_and_save_rej_files", "target": "bin",
             "run": lambda f, v, w: _mir.vc_rej_rollback_before_pop(f, v, w)},
            {"name": "save_files_worker: every worker rolls the failing patch back before it saves", "function": "parallel::save_files_worker", "target": "bin",
             "run": lambda f, v, w: _mir.vc_worker_rolls_back_before_save(f, v, w)},
            {"name": "apply_worker: stop test is strict", "function": "apply_worker", "target": "bin",
             "run": lambda f, v, w: _mir.vc_worker_stop_strict(f, v, w)},
        ],
        "level": "other",
        "engine": "mirvc: bounded symbolic execution of the nightly MIR of the driver glue; z3 4.8.12, cross-checked with cvc5",
        "functions": ['sequential::apply_patches (MIR)', 'cmd::cmd_push (MIR)', 'AppliedState::rollback_and_save_rej_files (MIR)', 'parallel::apply_worker (MIR)'],
        "symbolic": "config.dry_run, series length, the drivers' Result and ApplyResult fields, Enumerate::next => None | Some(i < len), report.failed(), patch indices",
        "bounds": {"loop_unrolling": mirvc.UNROLL, "integers": "bit-vectors of their Rust width"},
        "assumptions": [
            "callees are havoc'd (arbitrary result, &mut arguments invalidated) except the model table in bin/rqv/mirvc.py; unwinding out of callees is not followed",
            "all ApplyConfig references denote the single config built in cmd_push; field-less enum comparisons are discriminant comparisons",
            "a sat answer is only a candidate: it is reported after the scenario replay through the real binary reproduces a property violation, otherwise exit 2",
        ],
        "outside": ['equality of the tree with the first k patches applied (file I/O); in-memory undo of each file patch is C04', "the parallel driver's atomic earliest_broken_patch_index across threads"],
        "explanation": 'necessary conditions for all-or-nothing: after a failed file patch the failing patch is rolled back before anything is saved and no later patch is applied; the drivers return applied + skipped == len; .pc/applied-patches receives exactly series[0..applied] and only on Ok; the exit value is skipped == 0',
        "rule": "one evaluation = one solver query (path feasibility or negated VC at a call site); non-trivial = distinct call site / assertion site decided",
    }


def replay_candidate(v, work, log):
    from .. import scenarios
    return scenarios.replay_for("C05", v, work, log)
