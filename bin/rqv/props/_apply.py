"""Shared instance constructor for the apply families (VVec stand-in)."""
from ..kani import Instance

DIRS = {"fwd": "PatchDirection::Forward", "rev": "PatchDirection::Revert"}
FLAGS = {"recon": 1, "rollback": 2, "mono": 4, "lowest": 8, "exact": 16, "back": 32}


def shape_s(sh):
    return "p%dr%da%ds%d" % sh


def apply_inst(prefix, n, shapes, lines, fuzz, d, flags, sub, cap=None, unwind=None, mem_gb=9, timeout=1500, must_cover=()):
    """shapes: list of (p,r,a,s); lines: list of int or None (symbolic)."""
    h = len(shapes)
    name = "%s_n%d_%s_l%s_f%d_%s" % (prefix, n, "_".join(shape_s(s) for s in shapes),
                                      "".join("x" if l is None else str(l) for l in lines), fuzz, d)
    fl = 0
    for f in flags:
        fl |= FLAGS[f]
    sh_rs = ", ".join("Shape { p: %d, r: %d, a: %d, s: %d }" % s for s in shapes)
    ln_rs = ", ".join("None" if l is None else "Some(%d)" % l for l in lines)
    call = "apply_fam::<%d, %d>([%s], [%s], %d, %s, %d)" % (n, h, sh_rs, ln_rs, fuzz, DIRS[d], fl)
    grow = sum(max(0, (s[2] - s[1]) if d == "fwd" else (s[1] - s[2])) for s in shapes)
    need = n + grow
    if cap is None:
        cap = max(4, need, max(max(s[0] + s[1] + s[3], s[0] + s[2] + s[3]) for s in shapes))
    if unwind is None:
        unwind = max(n + 4, cap + 2)
    return Instance(name, "patch", call, unwind=unwind, unwindset={"memcmp.0": 3}, features=True, cap=cap,
                    mem_gb=mem_gb, timeout_s=timeout, sub=sub, must_cover=must_cover, sweep=("patch", "replay_sweep_multi_hunk"),
                    params=dict(file_lines=n, hunks=[dict(prefix_ctx=s[0], removed=s[1], added=s[2], suffix_ctx=s[3]) for s in shapes],
                                stated_lines=["symbolic 0..N+1" if l is None else l for l in lines], fuzz_limit=fuzz, direction=d,
                                checks=list(flags)))
