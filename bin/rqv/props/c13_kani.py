"""Kani part of C13: the reject writer (write_rej_to) and the reject file name."""
import itertools
from ..kani import Instance
from . import FROM_UTF8_STUB, writer_loops


def spec_part(tier, seed):
    inst = []
    vecs = [v for h in ((1, 2) if tier == "quick" else (1, 2, 3)) for v in itertools.product([True, False], repeat=h)]
    for v in vecs:
        nm = "c13w_" + "".join("a" if x else "f" for x in v)
        arr = ", ".join(str(x).lower() for x in v)
        inst.append(Instance(nm, "rej", "rej_case::<%d>([%s])" % (len(v), arr), unwind=34, unwindset={"memcmp.0": 30}, unwind_fns=writer_loops(1, 400), stubs=[FROM_UTF8_STUB],
                             mem_gb=12, timeout_s=2400, sub="C13 reject writer: exactly the failed hunks", params=dict(report=["applied" if x else "failed" for x in v])))
    return {"instances": inst,
            "functions": ["FilePatch::write_rej_to", "write_file_patch_header_to", "TextHunk::write_to", "parse_hunks (read back)"],
            "symbolic": "every line byte of the hunks; the applied/failed vector is enumerated (all vectors up to 3 hunks)",
            "bounds": {"hunks": "<= 2 (quick), <= 3 (thorough)", "lines_per_hunk_side": 1},
            "assumptions": ["report built with the crate's own constructors (new_with_capacity + push_hunk_report)", "fixed-size io::Write sink; from_utf8 stub; memchr stand-in"],
            "outside": ["hunks with context; the reject file name (make_rej_filename is OsString/extension handling in the binary crate)"],
            "explanation": "write_rej_to's output is parsed back: exactly the failed hunks, in order, with their line numbers and bytes; nothing is written when every hunk applied. "
                           "Guards over MIR: a reject file is created only for a file patch of the rejected patch whose report failed"}
