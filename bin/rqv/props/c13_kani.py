"""Kani part of C13: the reject writer (write_rej_to) and the reject file name."""
import itertools
from ..kani import Instance
from . import FROM_UTF8_STUB, writer_loops, rej_loops


def spec_part(tier, seed):
    inst = []
    # two failed/applied hunks with symbolic bytes exceed 12 GB (measured): quick keeps one-hunk vectors and the all-applied ones
    if tier == "quick":
        vecs = [(True,), (False,), (True, True)]
    else:
        vecs = [v for h in (1, 2) for v in itertools.product([True, False], repeat=h)] + [(True, True, True)]
    cases = [(v, True) for v in vecs] + [((False,), False)]
    for v, distinct in cases:
        nm = "c13w_" + "".join("a" if x else "f" for x in v) + ("" if distinct else "_anyeq")
        arr = ", ".join(str(x).lower() for x in v)
        inst.append(Instance(nm, "rej", "rej_case::<%d>([%s], %s)" % (len(v), arr, str(distinct).lower()), unwind=34, unwindset={"memcmp.0": 4},
                             unwind_fns=dict(writer_loops(1, 160), **rej_loops(len(v), 160)), mem_gb=(12 if len(v) == 1 or all(v) else 30), timeout_s=2400, sub="C13 reject writer: exactly the failed hunks",
                             must_cover=["reject scan done"] if not all(v) else [],
                             params=dict(report=["applied" if x else "failed" for x in v], removed_line_differs_from_added=distinct)))
    # (a Kani harness for make_rej_filename on concrete paths -- harness/common_h.rs -- was measured: > 560 s per path in the binary
    #  crate because of to_string_lossy; the directory part of the name is an Engine-B VC instead)
    return {"instances": inst,
            "functions": ["FilePatch::write_rej_to", "write_file_patch_header_to", "TextHunk::write_to", "common::make_rej_filename"],
            "symbolic": "every line byte of the hunks; the applied/failed vector is enumerated (all vectors up to 3 hunks)",
            "bounds": {"hunks": "1 failed hunk, or 2-3 applied ones (quick); 2 hunks with any vector attempted in thorough (30 GB cap)", "lines_per_hunk_side": 1},
            "assumptions": ["report built with the crate's own constructors (new_with_capacity + push_hunk_report)", "fixed-size io::Write sink; memchr stand-in",
                            "write!'s formatted text is canned (core::fmt does not get through symbolic execution): the numbers in the hunk header lines are C12's subject, "
                            "here the header text only identifies which hunk was written",
                            "removed and added line of a hunk differ, except in the one-hunk instance *_anyeq"],
            "outside": ["hunks with context or more than one line per side", "reading the reject file back through the parser (does not finish on a buffer of symbolic layout)",
                        "the exact reject file name (the VC decides that it is derived from the file's own path with the directory kept; the extension arithmetic is std's)"],
            "explanation": "write_rej_to's output is scanned as records: exactly the failed hunks, in order, with their bytes; nothing is written when every hunk applied. "
                           "Guards over MIR: a reject file is created only for a file patch of the rejected patch whose report failed, and the pass never ends early"}
