"""Kani part of C13 (write_rej_to, make_rej_filename) — filled in with the writer families."""


def spec_part(tier, seed):
    return {"instances": [], "functions": [], "symbolic": "", "bounds": {}, "assumptions": [], "outside": [],
            "explanation": "guards: a reject file is created only for a file patch of the rejected patch whose report failed"}
