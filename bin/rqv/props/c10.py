"""C10 — --dry-run writes nothing (guard lemma over the drivers' MIR; DESIGN.md §2 C10)."""
from .. import mirvc
from . import _mir

FUNCS = [("sequential::apply_patches", r"^sequential::apply_patches$"), ("parallel::save_files_worker", r"^save_files_worker$"),
         ("parallel::apply_worker", r"^apply_worker$"), ("parallel::apply_patches", r"^parallel::apply_patches$"), ("cmd::cmd_push", r"^cmd_push$")]


def run_lemma(fns, variants, work):
    return _mir.dry_run_lemma(fns, variants, work, FUNCS)


def spec(tier, seed):
    return {
        "instances": [],
        "mir_vcs": [{"name": "dry_run guard lemma", "function": "drivers", "target": "bin", "run": run_lemma},
                    {"name": "cmd_push: the result (exit status) is skipped == 0 on every path, dry run or not", "function": "cmd_push", "target": "bin",
                     "run": lambda f, v, w: _mir.vc_applied_patches_recorded(f, v, w)}],
        "level": "other",
        "engine": "mirvc: bounded symbolic execution of the nightly MIR of the drivers; z3, cross-checked with cvc5",
        "functions": [n + " (MIR)" for n, _ in FUNCS] + ["call-graph closure of every repo function over the writing primitives"],
        "symbolic": "config.dry_run is one symbolic boolean per function; every other branch condition is free or constrained by its own data flow",
        "bounds": {"loop_unrolling": mirvc.UNROLL},
        "assumptions": [
            "writing primitives = std::fs::{remove_file, remove_dir, create_dir_all, File::create, OpenOptions::open, set_permissions, rename, ...}; a repo function is a writer if the MIR call graph reaches one of them",
            "all ApplyConfig references denote the single config built in cmd_push",
            "construction of a closure that can reach a writer counts as a call to it",
        ],
        "outside": ["that the exit status and the failing patch equal those of a real run (needs two whole runs)", "metadata changes through paths other than the std::fs primitives listed"],
        "explanation": "for each driver function: no call to a function that can reach a file-system writing primitive is reachable on a path that is satisfiable together with dry_run == true; "
                       "the same calls are reachable with dry_run == false (non-vacuity)",
        "rule": "one evaluation = one solver query; non-trivial = distinct writer call site decided",
    }


def replay_candidate(v, work, log):
    from .. import scenarios
    return scenarios.replay_for("C10", v, work, log)
