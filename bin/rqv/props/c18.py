"""C18 — an output failure is never success nor recorded as applied: Ok-continuation lemma (DESIGN.md §2 C18)."""
from .. import mirvc
from . import _mir


def spec(tier, seed):
    return {
        "instances": [],
        "mir_vcs": [
            {"name": "cmd_push: applied-patches written only on the driver's Ok continuation; Err never becomes Ok", "function": "cmd_push", "target": "bin",
             "run": lambda f, v, w: _mir.vc_applied_patches_recorded(f, v, w)},
            {"name": "main: status 0 only for Ok(true)", "function": "main", "target": "bin",
             "run": lambda f, v, w: _mir.vc_main_exit_status(f, v, w)},
            {"name": "parallel::apply_patches: Ok only after the workers' errors were checked and there was none", "function": "parallel::apply_patches", "target": "bin",
             "run": lambda f, v, w: _mir.vc_worker_errors_checked(f, v, w)},
            {"name": "save_modified_file: Ok for a live file only after it was created and written", "function": "save_modified_file", "target": "bin",
             "run": lambda f, v, w: _mir.vc_save_writes_content(f, v, w)},
            {"name": "output functions never use Write::write (short writes)", "function": "save_applied_patches, save_modified_file, save_backup_file, rej / backup passes", "target": "bin",
             "run": lambda f, v, w: _mir.vc_no_short_write(f, v, w)},
            {"name": "save_applied_patches: the buffered writer is flushed explicitly before Ok", "function": "save_applied_patches", "target": "bin",
             "run": lambda f, v, w: _mir.vc_bufwriter_flushed(f, v, w, r"^save_applied_patches$", "c18f1")},
            {"name": "rollback_and_save_rej_files: the buffered writer is flushed explicitly before Ok", "function": "rollback_and_save_rej_files", "target": "bin",
             "run": lambda f, v, w: _mir.vc_bufwriter_flushed(f, v, w, r"rollback_and_save_rej_files$", "c18f2")},
            {"name": "ModifiedFile::write_to: the buffered writer is flushed explicitly before Ok", "function": "ModifiedFile::write_to", "target": "lib",
             "run": lambda f, v, w: _mir.vc_bufwriter_flushed(f, v, w, r"::write_to$", "c18f3", sig=r"_1: &ModifiedFile")},
        ],
        "level": "other",
        "engine": "mirvc: bounded symbolic execution of the nightly MIR of the driver glue; z3 4.8.12, cross-checked with cvc5",
        "functions": ['cmd::cmd_push (MIR)', 'main (MIR)'],
        "symbolic": "the drivers' Result discriminant and ApplyResult fields; run()'s Result",
        "bounds": {"loop_unrolling": mirvc.UNROLL, "integers": "bit-vectors of their Rust width"},
        "assumptions": [
            "callees are havoc'd (arbitrary result, &mut arguments invalidated) except the model table in bin/rqv/mirvc.py; unwinding out of callees is not followed",
            "all ApplyConfig references denote the single config built in cmd_push; field-less enum comparisons are discriminant comparisons",
            "a sat answer is only a candidate: it is reported after the scenario replay through the real binary reproduces a property violation, otherwise exit 2",
        ],
        "outside": ['that each individual write error is propagated (needs fault injection at the syscall boundary)', 'the message naming the file'],
        "explanation": 'save_applied_patches is reachable in cmd_push only when the driver returned Ok, an Err from the driver or from save_applied_patches never becomes Ok, and main exits 0 only for Ok(true)',
        "rule": "one evaluation = one solver query (path feasibility or negated VC at a call site); non-trivial = distinct call site / assertion site decided",
    }


def replay_candidate(v, work, log):
    from .. import scenarios
    return scenarios.replay_for("C18", v, work, log)
