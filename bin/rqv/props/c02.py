"""C02 — hunk placement obeys the offset / anchoring / fuzz rules (DESIGN.md §2 C02)."""
from ..kani import Instance
from . import rotate

DIRS = {"fwd": "PatchDirection::Forward", "rev": "PatchDirection::Revert"}


def c02a(n, p, r, a, s, k, d, timeout=1500):
    name = "c02a_n%d_p%dr%da%ds%d_k%d_%s" % (n, p, r, a, s, k, d)
    call = "c02a::<%d>(Shape { p: %d, r: %d, a: %d, s: %d }, %d, %s)" % (n, p, r, a, s, k, DIRS[d])
    return Instance(name, "patchpriv", call, unwind=n + 4, unwindset={"memcmp.0": 3}, mem_gb=8, timeout_s=timeout,
                    sub="C02a", params=dict(file_lines=n, prefix_ctx=p, removed=r, added=a, suffix_ctx=s, fuzz_level=k, direction=d))


def spec(tier, seed):
    inst = []
    for d in ("fwd", "rev"):
        inst.append(Instance("c02c_%s" % d, "patchpriv", "c02c(%s)" % DIRS[d], sub="C02c", mem_gb=2, timeout_s=300,
                             must_cover=["asymmetric trim", "both trimmed, unequal"],
                             params=dict(direction=d, prefix="any u64", suffix="any u64", fuzz="any u64")))
    inst.append(Instance("c02_twin", "patchpriv", "c02a_twin()", unwind=7, unwindset={"memcmp.0": 3}, mem_gb=6, timeout_s=600,
                         expect_fail=True, sub="vacuity twin", params=dict(note="same construction as C02a, ends in assert!(false)")))
    full = []
    for n in (5, 2, 0):
        for (p, s) in ((0, 1), (1, 1), (1, 0), (1, 2), (2, 1), (2, 2), (0, 0), (0, 2), (2, 0)):
            for (r, a) in ((1, 1), (1, 0), (0, 1), (0, 0)):
                for k in (0, 1, 2):
                    if k > max(p, s):
                        continue
                    if p + r + s > n + 1:
                        continue  # old side longer than the file by more than one line: only the length guard runs
                    for d in ("fwd", "rev"):
                        full.append((n, p, r, a, s, k, d))
    if tier == "quick":
        # the three anchoring classes at every fuzz level, plus empty old side
        base = [(5, 0, 1, 1, 1, 0, "fwd"), (5, 1, 1, 1, 1, 0, "fwd"), (5, 1, 1, 0, 0, 0, "rev"),
                (5, 1, 1, 1, 2, 1, "fwd"), (5, 2, 1, 1, 2, 1, "rev"), (5, 2, 0, 1, 1, 1, "fwd"),
                (5, 1, 1, 1, 2, 2, "fwd"), (5, 2, 1, 1, 2, 2, "fwd"), (5, 2, 1, 0, 0, 2, "rev"),
                (5, 0, 0, 1, 0, 0, "fwd"), (2, 1, 1, 1, 1, 1, "fwd")]
        extra = [x for x in rotate(full, seed, 8) if x not in base][:3]
        chosen = base + extra
    else:
        chosen = full
    for c in chosen:
        inst.append(c02a(*c))
    from . import _mir
    return {
        "instances": inst,
        "mir_vcs": [{"name": "apply_modify: offset and frozen line handed from one hunk to the next", "function": "apply_modify", "target": "lib",
                     "run": lambda f, v, w: _mir.vc_apply_bookkeeping(f, v, w)},
                    {"name": "parse_hunk: the context counters restart at every changed line (one inductive step of the line loop)", "function": "parse_hunk", "target": "lib",
                     "run": lambda f, v, w: _mir.vc_context_counts_reset(f, v, w)}],
        "level": "model_checking",
        "functions": ["patch::try_apply_hunk", "patch::try_apply_hunk::matches", "HunkView::new", "HunkView::remove_content",
                      "HunkView::add_content", "HunkView::prefix_context", "HunkView::suffix_context", "HunkView::position",
                      "Hunk::view", "Hunk::max_useable_fuzz", "itertools::Interleave (real)", "std Vec (real)"],
        "symbolic": "every file-line byte and hunk-line byte (1-byte lines from one symbolic pool), both stated lines in [0,N+1], "
                    "previous hunk offset in [-2,2], frozen line in [-1,N]; C02c: prefix, suffix, fuzz are arbitrary u64",
        "bounds": {"file_lines_N": "<= 5", "old_side_lines": "<= 5", "fuzz_level": "<= 2", "line_length": "1 byte (equality patterns among <= 256 lines)",
                   "C02c": "no bound: loop-free, all 64-bit values", "unwind": "N+4 (unwinding assertions on)"},
        "assumptions": [
            "stand-in crate `memchr` (byte loop) and stub crate `backtrace` on the overlay build; neither is reached by these harnesses",
            "both stated start lines of a hunk are zero or both non-zero (position() reads one side, the search the other; the property does not say which governs)",
            "lines are 1 byte long: the apply code compares lines only with ==, so only the equality pattern matters",
            "a MisorderedHunks outcome is only required to imply nearest-match + prefix <= frozen line (the property does not call it lack of a match)",
            "Kani models: allocation never fails; no concurrency",
        ],
        "outside": ["files longer than 5 lines / old sides longer than 5 lines", "fuzz levels above 2 in C02a (C02c covers the trimming arithmetic for every level)",
                    "the lowest-fuzz-level-first loop of apply_modify is checked under C20 / C03 families (C02b)"],
        "explanation": "bounded model checking of the real try_apply_hunk against a reference placement written from the property text; "
                       "the solver ranges over all line-equality patterns and positions inside each concrete shape",
    }


def replay_candidate(v, work, log):
    from .. import replay
    if "parse_hunk" in (v.get("name") or ""):
        return replay.replay_by_sweep("C02", v, work, log, module="parser", testname="replay_sweep_hunk_text")
    return replay.replay_by_sweep("C02", v, work, log)


FALLBACK_SWEEP = ("patch", "replay_sweep_multi_hunk")
