"""Per-property specifications: instance matrices (Engine A) and MIR VCs (Engine B)."""

# every known-finding tag a harness may reference (kf::TAG); open ones come from KNOWN_FINDINGS.json
ALL_KF_TAGS = [
    "C03_CONTEXT_OVER_CHANGED",
    "C04_SUFFIX_CONTEXT_REWRITTEN",
    "C12_NAME_NEEDS_QUOTING",
]

FROM_UTF8_STUB = ("std::str::from_utf8", "crate::verif_util::ascii_from_utf8")


def rotate(lst, seed, n):
    """Deterministic seed-rotated subset of size n (keeps order stable for seed 0)."""
    if n >= len(lst):
        return list(lst)
    k = (seed * 7919) % len(lst)
    rot = lst[k:] + lst[:k]
    step = len(rot) / float(n)
    return [rot[int(i * step)] for i in range(n)]
