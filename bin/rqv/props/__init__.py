"""Per-property specifications: instance matrices (Engine A) and MIR VCs (Engine B)."""

# every known-finding tag a harness may reference (kf::TAG); open ones come from KNOWN_FINDINGS.json
ALL_KF_TAGS = [
    "C03_CONTEXT_OVER_CHANGED",
    "C04_SUFFIX_CONTEXT_REWRITTEN",
    "C12_NAME_NEEDS_QUOTING",
]

FROM_UTF8_STUB = ("std::str::from_utf8", "crate::verif_util::ascii_from_utf8")


def rotate(lst, seed, n):
    """Deterministic seed-rotated subset of size n (keeps order stable for seed 0)."""
    if n >= len(lst):
        return list(lst)
    k = (seed * 7919) % len(lst)
    rot = lst[k:] + lst[:k]
    step = len(rot) / float(n)
    return [rot[int(i * step)] for i in range(n)]


def writer_loops(k, sink_size):
    """Per-loop bounds for TextHunk::write_to instantiated with the harness Sink<sink_size>, hunk sides of at most k lines
    (mangled-name templates: impl methods / nested fns).  A template that does not match any loop only costs time."""
    fcm = "_RNvNvXs_NtNtNt{libpatch}5patch7unified6writerINtBa_4HunkRShENtB6_22UnifiedPatchHunkWriter8write_to18find_closest_match"
    wt = "_RINvXs_NtNtNt{libpatch}5patch7unified6writerINtB9_4HunkRShENtB5_22UnifiedPatchHunkWriter8write_toINtNtNtB7_6parser7verif_h4SinkKj%x_EEBb_" % sink_size
    # loop ids as CBMC numbers them: find_closest_match .0 = inner (j), .1 = outer (i < a.len + b.len); write_to .0 / .1 = the two
    # `for _ in 0..count` loops, .2 = the outer while (one line at least per round).  Unwinding assertions stay on.
    return {fcm + ".0": k + 2, fcm + ".1": 2 * k + 2, wt + ".0": k + 2, wt + ".1": k + 2, wt + ".2": 2 * k + 2}


def rej_loops(h, sink_size):
    """write_rej_to's loop over the hunks, instantiated with Sink<sink_size> (see writer_loops)."""
    return {"_RINvXs1_NtNtNt{libpatch}5patch7unified6writerINtBa_9FilePatchRShENtB6_21UnifiedPatchRejWriter12write_rej_toINtNtNtB8_6parser7verif_h4SinkKj%x_EEBc_.0" % sink_size: h + 2}
