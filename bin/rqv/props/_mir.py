"""Engine B verification conditions shared by C05, C08, C10, C13, C15, C17, C18."""
import re

import z3

from .. import mirvc
from ..mirvc import Engine, Ref, Agg, find_fn, summarize, seeds_for, model_values, callm

# file-system writing primitives (std) as they appear in MIR callee strings
PRIMITIVES = r"(^|[^\w])(remove_file|remove_dir|remove_dir_all|create_dir_all|create_dir|File::create|OpenOptions::open|File::set_permissions|set_permissions|rename|hard_link|symlink|copy)(::<|$)"
WRITE_ALL = r"(write_all|write_fmt|as Write>::write|ModifiedFile::<'_>::write_to|write_rej_to)"


def writer_functions(fns, exempt=()):
    """Repo functions that can reach a file-system writing primitive (call-graph closure over the MIR).
    Returns {fn name: reason}.  Closures are attributed to themselves; construction of a closure in
    a function counts as a call of it."""
    calls = {}
    for name, fn in fns.items():
        cs = set()
        for bb, stmts in fn.blocks.items():
            for s in stmts:
                m = callm(s)
                if m and re.search(r"\) -> (\[return: bb\d+, unwind|unwind )", s) and not s.startswith(("drop(", "assert(", "switchInt(")):
                    cs.add(m.group(2).strip())
                cm = re.search(r"= \{closure@([^}]*)\}", s)
                if cm:
                    cs.add("{closure@%s}" % cm.group(1))
        calls[name] = cs
    writers = {}
    for name, cs in calls.items():
        for c in cs:
            if re.search(PRIMITIVES, c):
                writers[name] = "calls " + c[:60]
    closure_src = {}
    for name, fn in fns.items():
        m = re.search(r"_1: &?(?:mut )?\{closure@([^}]*)\}", fn.sig)
        if m:
            closure_src["{closure@%s}" % m.group(1)] = name
    for e in exempt:
        writers.pop(e, None)
    changed = True
    while changed:
        changed = False
        for name, cs in calls.items():
            if name in writers or name in exempt:
                continue
            for c in cs:
                tgt = closure_src.get(c)
                hit = None
                if tgt and tgt in writers:
                    hit = tgt
                else:
                    for w in writers:
                        if callee_is(c, w):
                            hit = w
                            break
                if hit:
                    writers[name] = "reaches " + hit[:70]
                    changed = True
                    break
    return writers


def short(name):
    """MIR function name -> the tail that appears in callee strings."""
    n = re.sub(r"<impl at [^>]*>::", "", name)
    return n.split("::")[-1] if "{closure" not in n else n


def strip_generics(c):
    """Remove every `::<...>` group (balanced) from a MIR callee string."""
    out, i = "", 0
    while i < len(c):
        if c.startswith("::<", i):
            depth, j = 0, i + 2
            while j < len(c):
                if c[j] == "<":
                    depth += 1
                elif c[j] == ">" and c[j - 1] != "-":
                    depth -= 1
                    if depth == 0:
                        break
                j += 1
            i = j + 1
        else:
            out += c[i]
            i += 1
    return out


def callee_is(callee, fname):
    """Does the MIR callee string denote repo function `fname` (as named in the dump)?"""
    tail = short(fname)
    if "{closure" in fname:
        return False
    c = strip_generics(callee)
    return c.endswith("::" + tail) or c == tail


def config_param(fn):
    for k, t in fn.types.items():
        m = re.fullmatch(r"_(\d+)", k)
        if m and int(m.group(1)) <= fn.nparams and "ApplyConfig" in t and t.startswith("&"):
            return k
    return None


def cfg_field(eng, st, field, ty):
    """Current symbolic value of config.<field> in the function being executed."""
    idx = mirvc.struct_field_index("ApplyConfig", field)
    p = config_param(eng.fn)
    if p is not None:
        ref = eng.read_path(st, p, eng.fn.types[p])
        return eng.read_path(st, "%s.%d" % (ref.target, idx), ty)
    cfg = eng.fn.debug.get("config")
    if cfg is None:
        raise KeyError("no ApplyConfig in %s" % eng.fn.name)
    if eng.fn.types.get(cfg, "").startswith("&"):
        ref = eng.read_path(st, cfg, eng.fn.types[cfg])
        if isinstance(ref, Ref):
            return eng.read_path(st, "%s.%d" % (ref.target, idx), ty)
    return eng.read_path(st, "%s.%d" % (cfg, idx), ty)


def cfg_seeds(fn, fields):
    """Seed text so that the slicing keeps reads of the given config fields."""
    out = set()
    p = config_param(fn)
    for f in fields:
        idx = mirvc.struct_field_index("ApplyConfig", f)
        if idx is None:
            raise KeyError("ApplyConfig.%s" % f)
        if p is not None:
            out.add(p)
        else:
            cfg = fn.debug.get("config")
            if cfg:
                out.add("(%s.%d: x)" % (cfg, idx))
                if fn.types.get(cfg, "").startswith("&"):
                    out.add(cfg)
    return out


# ------------------------------------------------------------------------------------------ C10
def vc_dry_run_guard(fns, variants, work, fn_pat, tag, writers=None):
    """No function that can reach a writing primitive is called (and no closure reaching one is built)
    on a path satisfiable together with config.dry_run == true."""
    fn = find_fn(fns, fn_pat)
    if writers is None:
        writers = writer_functions(fns)
    closure_writers = [re.search(r"\{closure@[^}]*\}", fns[w].sig).group(0) for w in writers
                       if re.search(r"_1: &?(?:mut )?\{closure@", fns[w].sig)]
    found, reached, unguarded = [], [0], [0]

    def is_writer(callee):
        if re.search(PRIMITIVES, callee):
            return True
        return any(callee_is(callee, w) for w in writers if w != fn.name)

    def check(eng, st, bb, stmt, what):
        reached[0] += 1
        dry = cfg_field(eng, st, "dry_run", "bool")
        ok, model = eng.feasible(st, [dry])
        eng.record_query("%s %s" % (bb, what[:40]), list(st.pc) + [dry])
        if ok:
            found.append({"bb": bb, "stmt": stmt[:200], "what": "writer reachable with dry_run == true: " + what[:100],
                          "model": model_values(model, ("in_",)), "trace": list(st.trace[-30:])})
        ok2, _ = eng.feasible(st, [z3.Not(dry)])
        if ok2:
            unguarded[0] += 1

    def on_call(eng, st, bb, site, stmt, dst, callee, args, nxt):
        if is_writer(callee):
            check(eng, st, bb, stmt, callee)
        return None

    def on_agg(eng, st, tyname, dpath, site):
        for cw in closure_writers:
            if cw in tyname:
                check(eng, st, site, tyname, "closure " + cw)

    eng = Engine(fns, fn, variants, hooks={"on_call": on_call, "on_aggregate": on_agg})
    eng.seeds = cfg_seeds(fn, ["dry_run"])
    eng.run()
    # vacuity: writers must be reachable at all (with dry_run == false)
    return summarize(eng, found, {"writer_call_sites_reached": reached[0], "reachable_without_dry_run": unguarded[0],
                                  "writer_functions": sorted(short(w) for w in writers)[:40]},
                     work, tag, witness_ok=(unguarded[0] > 0),
                     witness_note="no writer call is reachable even with dry_run == false (pattern set or slicing lost the calls)")


# ------------------------------------------------------------------------------------------ C15
def vc_replace_not_edit(fns, variants, work):
    """save_modified_file: every path reaching File::create with file.existed has called remove_file before,
    and remove_file either succeeded or failed with NotFound."""
    fn = find_fn(fns, r"^save_modified_file$")
    found, reached = [], [0]

    def after_call(eng, st, bb, site, stmt, dst, callee, args, argv):
        if re.search(r"(^|[^\w])remove_file::<", callee) and dst:
            dpath, _ = eng.resolve(st, dst)
            st.store["ghost:rm_disc"] = eng.read_path(st, dpath + "#disc", "isize")
            st.ghost = st.ghost | {"removed"}
        if re.search(r"ErrorKind as PartialEq>::eq$", callee) and dst and "removed" in st.ghost:
            dpath, _ = eng.resolve(st, dst)
            v = st.store.get(dpath)
            if v is not None and z3.is_bool(v):
                st.store["ghost:rm_notfound"] = v

    def on_call(eng, st, bb, site, stmt, dst, callee, args, nxt):
        if re.search(r"File::create::<", callee):
            reached[0] += 1
            file_param = [k for k, t in eng.fn.types.items() if re.fullmatch(r"_\d+", k) and int(k[1:]) <= eng.fn.nparams and "ModifiedFile" in t][0]
            ref = eng.read_path(st, file_param, eng.fn.types[file_param])
            existed = eng.read_path(st, "%s.%d" % (ref.target, mirvc.struct_field_index("ModifiedFile", "existed")), "bool")
            if "removed" not in st.ghost:
                ok, model = eng.feasible(st, [existed])
                eng.record_query("%s create-without-remove" % bb, list(st.pc) + [existed])
                if ok:
                    found.append({"bb": bb, "stmt": stmt[:160], "what": "File::create reachable for a file that existed without remove_file before it",
                                  "model": model_values(model, ("in_",)), "trace": list(st.trace[-30:])})
            else:
                rm = st.store.get("ghost:rm_disc")
                nf = st.store.get("ghost:rm_notfound")
                bad = [existed, rm != 0]
                if nf is not None:
                    bad.append(z3.Not(nf))
                ok, model = eng.feasible(st, bad)
                eng.record_query("%s create-after-failed-remove" % bb, list(st.pc) + bad)
                if ok:
                    found.append({"bb": bb, "stmt": stmt[:160], "what": "File::create reachable after remove_file failed with an error other than NotFound",
                                  "model": model_values(model, ("in_", "c_")), "trace": list(st.trace[-30:])})
        return None

    eng = Engine(fns, fn, variants, hooks={"on_call": on_call, "after_call": after_call})
    file_param = [k for k, t in fn.types.items() if re.fullmatch(r"_\d+", k) and int(k[1:]) <= fn.nparams and "ModifiedFile" in t]
    if not file_param:
        raise KeyError("ModifiedFile parameter of save_modified_file")
    eng.seeds = set(file_param) | seeds_for(fn, False, (r"remove_file::<", r"ErrorKind as PartialEq>::eq$", r"Error::kind$"))
    eng.run()
    return summarize(eng, found, {"file_create_sites_reached": reached[0]}, work, "c15", witness_ok=reached[0] > 0,
                     witness_note="File::create never reached")


def dry_run_lemma(fns, variants, work, funcs):
    """Fixpoint: W = functions that may write although dry_run is true.  A driver whose every call into W
    is unreachable under dry_run leaves W; the lemma holds when every listed driver has left W."""
    names = {}
    for label, pat in funcs:
        names[label] = find_fn(fns, pat).name
    exempt = set()
    results = {}
    for _round in range(len(funcs) + 1):
        writers = writer_functions(fns, exempt)
        progress = False
        for label, pat in funcs:
            if names[label] in exempt:
                continue
            r = vc_dry_run_guard(fns, variants, None, pat, "c10", writers)
            results[label] = r
            if r["verdict"] == "holds" or (r["verdict"] == "inconclusive" and r.get("writer_call_sites_reached", 1) == 0):
                if r["verdict"] != "holds":
                    r["verdict"] = "holds"
                    r["reason"] = "no call into a function that may write under dry_run occurs here"
                exempt.add(names[label])
                progress = True
        if not progress:
            break
    out = []
    for label, pat in funcs:
        r = results[label]
        r["name"] = "dry_run guard: %s" % label
        r["function"] = label
        r["may_write_under_dry_run"] = sorted(short(w) for w in writer_functions(fns, exempt))[:30]
        out.append(r)
    # cross-check the final queries of each engine run once
    return out


# ------------------------------------------------------------------------------------------ C05 / C18
DRIVER_PAT = r"(sequential::apply_patches$|ThreadPool::install::<)"


def driver_contract(eng, st, site, dst, callee, args, argv):
    """Assume-guarantee for the two drivers as seen from cmd_push: Ok(ApplyResult{applied, skipped}) satisfies
    applied <= len(config.series_patches) and skipped == len - applied (proved for the sequential driver by
    vc_sequential_contract; for the parallel driver the constructor is the same expression over an atomic)."""
    cfg = eng.fn.debug.get("config")
    if cfg is None:
        raise KeyError("debug local `config` in cmd_push")
    idx = mirvc.struct_field_index("ApplyConfig", "series_patches")
    sl = eng.read_path(st, "%s.%d" % (cfg, idx), "&[SeriesPatch]")
    if not isinstance(sl, Ref):
        return None
    ln = eng.obj_len(st, sl.target)
    a = z3.BitVec("c_%s_applied" % site, 64)
    k = z3.BitVec("c_%s_skipped" % site, 64)
    d = z3.BitVec("c_%s_disc" % site, 64)
    st.pc.append(z3.Or(d == 0, d == 1))
    st.pc.append(z3.Implies(d == 0, z3.And(z3.ULE(a, ln), k == ln - a)))
    st.store["ghost:drv_disc"] = d
    st.store["ghost:drv_applied"] = a
    st.store["ghost:drv_skipped"] = k
    st.store["ghost:series"] = Ref(sl.target)
    st.ghost = st.ghost | {"driver"}
    return {"#disc": d, "@Ok.0": Agg("ar_" + site), "@Ok.0.0": a, "@Ok.0.1": k}


def vc_applied_patches_recorded(fns, variants, work):
    """cmd_push: save_applied_patches is called only on the driver's Ok continuation, with exactly
    config.series_patches[0..applied_patches]; the returned bool is skipped_patches == 0."""
    fn = find_fn(fns, r"^cmd_push$")
    found, reached, returns = [], [0], [0]

    def on_call(eng, st, bb, site, stmt, dst, callee, args, nxt):
        if callee_is(callee, "save_applied_patches"):
            reached[0] += 1
            if "driver" not in st.ghost:
                found.append({"bb": bb, "stmt": stmt[:160], "what": "save_applied_patches reachable without a driver call before it", "model": {}, "trace": list(st.trace[-30:])})
                return None
            d = st.store["ghost:drv_disc"]
            ok, model = eng.feasible(st, [d != 0])
            eng.record_query("%s applied-patches on Err" % bb, list(st.pc) + [d != 0])
            if ok:
                found.append({"bb": bb, "stmt": stmt[:160], "what": "save_applied_patches reachable although the driver returned Err",
                              "model": model_values(model, ("c_",)), "trace": list(st.trace[-30:])})
            v, _, _ = eng.operand(st, args[1])
            good = None
            if isinstance(v, Ref):
                so = st.store.get(v.target + "#slice_of")
                sstart = st.store.get(v.target + "#start")
                send = st.store.get(v.target + "#end")
                ser = st.store.get("ghost:series")
                if isinstance(so, Ref) and isinstance(ser, Ref) and so.target == ser.target and sstart is not None:
                    good = z3.And(sstart == 0, send == st.store["ghost:drv_applied"])
            if good is None:
                found.append({"bb": bb, "stmt": stmt[:160], "what": "argument of save_applied_patches is not a sub-slice of config.series_patches", "model": {}, "trace": list(st.trace[-30:])})
            else:
                ok, model = eng.feasible(st, [z3.Not(good)])
                eng.record_query("%s applied-patches slice" % bb, list(st.pc) + [z3.Not(good)])
                if ok:
                    found.append({"bb": bb, "stmt": stmt[:160], "what": "save_applied_patches is not given series_patches[0..applied_patches]",
                                  "model": model_values(model, ("c_", "in_")), "trace": list(st.trace[-30:])})
        return None

    def on_return(eng, st, bb):
        if "driver" not in st.ghost:
            return
        d0 = st.store.get("_0#disc")
        val = st.store.get("_0@Ok.0")
        if d0 is None or val is None or not z3.is_bool(val):
            return
        returns[0] += 1
        k = st.store["ghost:drv_skipped"]
        bad = [d0 == 0, val != (k == 0)]
        ok, model = eng.feasible(st, bad)
        eng.record_query("%s return value" % bb, list(st.pc) + bad)
        if ok:
            found.append({"bb": bb, "stmt": "return", "what": "cmd_push returns Ok(b) with b != (skipped_patches == 0)", "model": model_values(model, ("c_",)), "trace": list(st.trace[-30:])})
        # Err from the driver must not become Ok
        bad = [st.store["ghost:drv_disc"] != 0, d0 == 0]
        ok, model = eng.feasible(st, bad)
        eng.record_query("%s err to ok" % bb, list(st.pc) + bad)
        if ok:
            found.append({"bb": bb, "stmt": "return", "what": "cmd_push returns Ok although the driver returned Err", "model": model_values(model, ("c_",)), "trace": list(st.trace[-30:])})

    eng = Engine(fns, fn, variants, hooks={"on_call": on_call, "on_return": on_return})
    eng.contracts = [(DRIVER_PAT, driver_contract)]
    seeds = {"_0"} | cfg_seeds(fn, ["series_patches"])
    for bb, stmts in fn.blocks.items():
        for st_ in stmts:
            m = callm(st_)
            if m and callee_is(m.group(2).strip(), "save_applied_patches"):
                seeds |= set(re.findall(r"_\d+", mirvc.split_top(m.group(3))[1]))
    eng.seeds = seeds
    eng.run()
    return summarize(eng, found, {"save_applied_patches_sites": reached[0], "ok_returns_checked": returns[0]}, work, "c05b",
                     witness_ok=reached[0] > 0 and returns[0] > 0, witness_note="call site or Ok return not reached")


def vc_no_short_write(fns, variants, work):
    """The functions that produce output files never call io::Write::write (which may write only part of the buffer and says so
    in a count) -- only write_all / write_fmt / writeln!, which loop until everything is written or an error comes back."""
    pat = r"(^|::)(save_applied_patches|save_modified_file|save_backup_file|rollback_and_save_rej_files|rollback_and_save_backup_files|write_to|write_rej_to)(::\{closure#\d+\})*$"
    found, seen = [], 0
    eng0 = None
    for name in sorted(fns):
        if not re.search(pat, name):
            continue
        fn = fns[name]
        seen += 1

        def on_call(eng, st, bb, site, stmt, dst, callee, args, nxt, name=name):
            if re.search(r" as (std::io::)?Write>::write$", callee) or re.search(r"(^|::)File::write$", strip_generics(callee)):
                ok, _ = eng.feasible(st)
                if ok:
                    found.append({"bb": bb, "stmt": stmt[:160], "what": "%s calls Write::write: a short write is not an error and the rest of the buffer is lost silently" % name.split("::")[-1],
                                  "model": {}, "trace": list(st.trace[-8:])})
            return None
        if not any(re.search(r"Write>::write\b|File::write\b", s_) for stmts in fn.blocks.values() for s_ in stmts):
            continue          # nothing to explore: no such call in the text at all
        eng = Engine(fns, fn, variants, hooks={"on_call": on_call})
        eng.seeds = set()
        eng.run()
        eng0 = eng0 or eng
    if seen == 0:
        raise KeyError("output functions (save_applied_patches, ...)")
    if eng0 is None:
        return {"verdict": "holds", "queries": 0, "states": 0, "paths": 0, "solver_s": 0.0, "output_functions_checked": seen, "function": "output functions"}
    return summarize(eng0, found, {"output_functions_checked": seen}, work, "c18w", witness_ok=True)


def vc_worker_rolls_back_before_save(fns, variants, work):
    """parallel::save_files_worker: every worker rolls the failing patch back (rollback_and_save_rej_files(final_patch)) before it
    saves its files, whether or not one of ITS file patches failed -- a worker that only holds cleanly applied file patches of the
    failing patch must undo them too.  (The call itself returns at once when there is nothing of that patch on the stack.)"""
    fn = find_fn(fns, r"^save_files_worker$")
    found, reached = [], {"save": 0}

    def on_call(eng, st, bb, site, stmt, dst, callee, args, nxt):
        if callee_is(callee, "rollback_and_save_rej_files"):
            st.ghost = st.ghost | {"rej"}
        elif strip_generics(callee).endswith("ModifiedFiles::save"):
            reached["save"] += 1
            if "rej" not in st.ghost:
                ok, model = eng.feasible(st)
                eng.record_query("%s save without rollback" % bb, list(st.pc))
                if ok:
                    found.append({"bb": bb, "stmt": stmt[:160], "what": "a worker saves its files without rolling back its share of the failing patch first",
                                  "model": model_values(model, ("in_", "c_")), "trace": list(st.trace[-30:])})
        return None

    eng = Engine(fns, fn, variants, hooks={"on_call": on_call})
    eng.seeds = cfg_seeds(fn, ["dry_run"])
    eng.run()
    return summarize(eng, found, {"save_sites_reached": reached["save"]}, work, "c05w", witness_ok=reached["save"] > 0, witness_note="ModifiedFiles::save not reached")


def vc_backup_keeps_mode(fns, variants, work):
    """save_backup_file: a backup of a file that has permissions gets them through set_permissions on the open file (a creation
    mode is filtered by the umask and ignored when the backup exists already), before the content is written: on every path to
    the content write either set_permissions was called, or the file's Option<Permissions> was examined and is None."""
    cands = [f for n, f in fns.items() if re.match(r"(common::)?save_backup_file(::\{closure#\d+\})*$", n)
             and any(re.search(r"ModifiedFile::<[^>]*>::write_to|ModifiedFile::write_to", s_) for stmts in f.blocks.values() for s_ in stmts)]
    if not cands:
        raise KeyError("save_backup_file: the function (or closure) that writes the backup content")
    fn = cands[0]
    found, reached = [], {"writes": 0, "setperm": 0}

    def on_stmt(eng, st, bb, s):
        m = re.match(r"(_\d+) = discriminant\(.*Option<std::fs::Permissions>\)\)$", s)
        if m:
            st.ghost = st.ghost | {"look:" + m.group(1)}
        m = re.match(r"switchInt\(move (_\d+)\) -> \[(.*)\]$", s)
        if m and ("look:" + m.group(1)) in st.ghost:
            arms = dict(re.findall(r"(\d+|otherwise): (bb\d+)", m.group(2)))
            if "0" in arms:
                st.ghost = st.ghost | {"none_arm:" + arms["0"]}

    def on_call(eng, st, bb, site, stmt, dst, callee, args, nxt):
        c = strip_generics(callee)
        if re.search(r"File::set_permissions$", c):
            reached["setperm"] += 1
            st.ghost = st.ghost | {"perm"}
        elif re.search(r"ModifiedFile::write_to$", c):
            reached["writes"] += 1
            if "perm" not in st.ghost:
                none_arms = [g[9:] for g in st.ghost if g.startswith("none_arm:")]
                took_none = any(a == bb or a in st.trace for a in none_arms)
                ok, _ = eng.feasible(st)
                if ok and not took_none:
                    what = ("the backup's content is written without set_permissions although the file may carry permissions" if none_arms else
                            "the backup's content is written without the file's permissions having been looked at (the backup would get whatever mode create + umask give)")
                    found.append({"bb": bb, "stmt": stmt[:160], "what": what, "model": {}, "trace": list(st.trace[-12:])})
        return None

    eng = Engine(fns, fn, variants, hooks={"on_call": on_call, "on_stmt": on_stmt})
    eng.run()
    return summarize(eng, found, {"write_sites_reached": reached["writes"], "set_permissions_sites_reached": reached["setperm"]}, work, "c08p",
                     witness_ok=reached["writes"] > 1 and reached["setperm"] > 0, witness_note="expected the write to be reached with and without permissions: %r" % reached)


def vc_sequential_order(fns, variants, work):
    """sequential::apply_patches: once a file patch failed, rollback_and_save_rej_files runs before ModifiedFiles::save
    (unless dry_run), and no further file patch is applied after that rollback."""
    fn = find_fn(fns, r"^sequential::apply_patches$")
    flag = fn.debug.get("any_report_failed")
    if flag is None:
        raise KeyError("debug local any_report_failed")
    found, reached = [], {"save": 0, "save_after_failure": 0}

    def on_stmt(eng, st, bb, s):
        if s == "%s = const true" % flag:
            st.ghost = st.ghost | {"failed"}

    def on_call(eng, st, bb, site, stmt, dst, callee, args, nxt):
        if callee_is(callee, "rollback_and_save_rej_files"):
            st.ghost = st.ghost | {"rej"}
        elif callee_is(callee, "apply_one_file_patch"):
            if "rej" in st.ghost:
                ok, model = eng.feasible(st)
                if ok:
                    found.append({"bb": bb, "stmt": stmt[:160], "what": "a file patch is applied after the failing patch was rolled back", "model": {}, "trace": list(st.trace[-30:])})
        elif strip_generics(callee).endswith("ModifiedFiles::save"):
            reached["save"] += 1
            if "failed" in st.ghost:
                reached["save_after_failure"] += 1
                if "rej" not in st.ghost:
                    dry = cfg_field(eng, st, "dry_run", "bool")
                    ok, model = eng.feasible(st, [z3.Not(dry)])
                    eng.record_query("%s save without rollback" % bb, list(st.pc) + [z3.Not(dry)])
                    if ok:
                        found.append({"bb": bb, "stmt": stmt[:160], "what": "files are saved after a failed patch without rolling it back first",
                                      "model": model_values(model, ("in_",)), "trace": list(st.trace[-30:])})
        return None

    eng = Engine(fns, fn, variants, hooks={"on_call": on_call, "on_stmt": on_stmt})
    eng.seeds = cfg_seeds(fn, ["dry_run"]) | {flag}
    eng.run()
    return summarize(eng, found, dict(reached), work, "c05a", witness_ok=reached["save_after_failure"] > 0,
                     witness_note="no path from a failed file patch to save was explored")


def vc_sequential_contract(fns, variants, work):
    """sequential::apply_patches: every checked-arithmetic assert holds, and every Ok return carries
    applied_patches <= len(series_patches), skipped_patches == len - applied_patches."""
    fn = find_fn(fns, r"^sequential::apply_patches$")
    found, n, rets = [], [0], [0]

    def check(eng, st, bb, stmt, cond, msg):
        ok, model = eng.feasible(st, [z3.Not(cond)])
        eng.record_query("%s %s" % (bb, msg[:40]), list(st.pc) + [z3.Not(cond)])
        n[0] += 1
        if ok:
            found.append({"bb": bb, "stmt": stmt[:200], "what": msg, "model": model_values(model, ("in_", "c_")), "trace": list(st.trace[-40:])})

    def on_return(eng, st, bb):
        d0 = st.store.get("_0#disc")
        a = st.store.get("_0@Ok.0.0")
        k = st.store.get("_0@Ok.0.1")
        if d0 is None or a is None or k is None:
            return
        rets[0] += 1
        ln = eng.obj_len(st, cfg_field(eng, st, "series_patches", "&[SeriesPatch]").target)
        bad = [d0 == 0, z3.Not(z3.And(z3.ULE(a, ln), k == ln - a))]
        ok, model = eng.feasible(st, bad)
        eng.record_query("%s contract" % bb, list(st.pc) + bad)
        if ok:
            found.append({"bb": bb, "stmt": "return", "what": "Ok(ApplyResult) violates applied <= len && skipped == len - applied",
                          "model": model_values(model, ("in_", "c_")), "trace": list(st.trace[-30:])})

    eng = Engine(fns, fn, variants, hooks={"on_assert": check, "on_precondition": check, "on_return": on_return})
    eng.seeds = seeds_for(fn, True, (mirvc.INDEX_PAT,)) | {"_0"} | cfg_seeds(fn, ["series_patches"])
    eng.run()
    return summarize(eng, found, {"asserts_checked": n[0], "ok_returns_checked": rets[0]}, work, "c05c",
                     witness_ok=n[0] > 0 and rets[0] > 0, witness_note="no assert or no Ok return reached")


def vc_main_exit_status(fns, variants, work):
    """main: the process returns normally (status 0) only when run() returned Ok(true); every other outcome reaches exit(1)."""
    fn = find_fn(fns, r"^main$")
    found, exits, rets = [], [0], [0]

    def after_call(eng, st, bb, site, stmt, dst, callee, args, argv):
        if re.search(r"(^|::)run::<", callee) and dst:
            dpath, _ = eng.resolve(st, dst)
            st.store["ghost:run_disc"] = eng.read_path(st, dpath + "#disc", "isize")
            st.store["ghost:run_ok"] = eng.read_path(st, dpath + "@Ok.0", "bool")
            st.ghost = st.ghost | {"ran"}

    def on_call(eng, st, bb, site, stmt, dst, callee, args, nxt):
        if re.search(r"process::exit$", callee):
            exits[0] += 1
            v, _, _ = eng.operand(st, args[0])
            if v is None or not z3.is_bv(v):
                found.append({"bb": bb, "stmt": stmt[:120], "what": "exit status is not a constant", "model": {}, "trace": []})
            else:
                ok, model = eng.feasible(st, [v == 0])
                if ok and "ran" in st.ghost:
                    found.append({"bb": bb, "stmt": stmt[:120], "what": "exit(0) reachable after run()", "model": {}, "trace": list(st.trace[-20:])})
        return None

    def on_return(eng, st, bb):
        if "ran" not in st.ghost:
            return
        rets[0] += 1
        d = st.store["ghost:run_disc"]
        okv = st.store["ghost:run_ok"]
        bad = [z3.Or(d != 0, z3.Not(okv))]
        ok, model = eng.feasible(st, bad)
        eng.record_query("%s normal return" % bb, list(st.pc) + bad)
        if ok:
            found.append({"bb": bb, "stmt": "return", "what": "main returns normally (status 0) although run() returned Err or Ok(false)",
                          "model": model_values(model, ("in_", "c_")), "trace": list(st.trace[-20:])})

    eng = Engine(fns, fn, variants, hooks={"on_call": on_call, "after_call": after_call, "on_return": on_return})
    seeds = set()
    for bb, stmts in fn.blocks.items():
        for st_ in stmts:
            m = callm(st_, need_dst=True)
            if m and re.search(r"(^|::)run::<", m.group(2)):
                seeds.add(m.group(1))
    if not seeds:
        raise KeyError("call of run() in main")
    eng.seeds = seeds
    eng.run()
    return summarize(eng, found, {"exit_sites": exits[0], "normal_returns_checked": rets[0]}, work, "c18m",
                     witness_ok=exits[0] > 0 and rets[0] > 0, witness_note="exit or return not reached")


# ------------------------------------------------------------------------------------------ C08
def vc_backup_window(fns, variants, work, fn_pat, tag):
    """Driver: rollback_and_save_backup_files is called only when !dry_run and (Always or (OnFail and final_patch != len)),
    with down_to_index == (All ? 0 : final_patch > n ? final_patch - n : 0); it is reachable for Always and for OnFail."""
    fn = find_fn(fns, fn_pat)
    fp = fn.debug.get("final_patch")
    if fp is None:
        raise KeyError("debug local final_patch in %s" % fn.name)
    found, reached, wit = [], [0], {"always": 0, "onfail": 0}
    V = variants

    def on_call(eng, st, bb, site, stmt, dst, callee, args, nxt):
        if not callee_is(callee, "rollback_and_save_backup_files"):
            return None
        reached[0] += 1
        cref = eng.read_path(st, config_param(eng.fn), eng.fn.types[config_param(eng.fn)])
        base = cref.target
        fld = lambda f: mirvc.struct_field_index("ApplyConfig", f)
        dry = eng.read_path(st, "%s.%d" % (base, fld("dry_run")), "bool")
        db = eng.read_path(st, "%s.%d#disc" % (base, fld("do_backups")), "isize")
        bc = eng.read_path(st, "%s.%d#disc" % (base, fld("backup_count")), "isize")
        n = eng.read_path(st, "%s.%d@Last.0" % (base, fld("backup_count")), "usize")
        ser = eng.read_path(st, "%s.%d" % (base, fld("series_patches")), "&[SeriesPatch]")
        ln = eng.obj_len(st, ser.target)
        final = eng.read_path(st, fp, "usize")
        guard = z3.And(z3.Not(dry), z3.Or(db == V["Always"], z3.And(db == V["OnFail"], final != ln)))
        ok, model = eng.feasible(st, [z3.Not(guard)])
        eng.record_query("%s backup guard" % bb, list(st.pc) + [z3.Not(guard)])
        if ok:
            found.append({"bb": bb, "stmt": stmt[:160], "what": "backups written outside `!dry_run && (always || (onfail && stopped early))`",
                          "model": model_values(model, ("in_",)), "trace": list(st.trace[-30:])})
        down, _, _ = eng.operand(st, args[1])
        if down is None or not z3.is_bv(down):
            found.append({"bb": bb, "stmt": stmt[:160], "what": "down_to_index is not a tracked integer", "model": {}, "trace": []})
        else:
            want = z3.If(bc == V["All"], z3.BitVecVal(0, 64), z3.If(z3.UGT(final, n), final - n, z3.BitVecVal(0, 64)))
            ok, model = eng.feasible(st, [down != want, z3.Or(bc == V["All"], bc == V["Last"])])
            eng.record_query("%s down_to_index" % bb, list(st.pc) + [down != want])
            if ok:
                found.append({"bb": bb, "stmt": stmt[:160], "what": "down_to_index differs from final_patch -. backup_count",
                              "model": model_values(model, ("in_",)), "trace": list(st.trace[-30:])})
        for key, c in (("always", db == V["Always"]), ("onfail", z3.And(db == V["OnFail"], final != ln))):
            ok, _ = eng.feasible(st, [c])
            if ok:
                wit[key] += 1
        return None

    eng = Engine(fns, fn, variants, hooks={"on_call": on_call})
    seeds = {config_param(fn), fp}
    for bb, stmts in fn.blocks.items():
        for s_ in stmts:
            m = callm(s_)
            if m and callee_is(m.group(2).strip(), "rollback_and_save_backup_files"):
                seeds |= set(re.findall(r"_\d+", mirvc.split_top(m.group(3))[1]))
    eng.seeds = seeds
    eng.run()
    return summarize(eng, found, {"backup_call_sites_reached": reached[0], "reachable_with_always": wit["always"], "reachable_with_onfail": wit["onfail"]},
                     work, tag, witness_ok=reached[0] > 0 and wit["always"] > 0 and wit["onfail"] > 0,
                     witness_note="backup call not reachable for always / onfail")


def vc_backup_loop(fns, variants, work):
    """rollback_and_save_backup_files: no backup is written for a patch with index < down_to_index, and a rename
    gets two backups (old and new name) in the same iteration."""
    fn = find_fn(fns, r"rollback_and_save_backup_files$")
    found, reached, renames = [], [0], [0]

    def on_stmt(eng, st, bb, s):
        m = re.match(r"(_\d+) = copy \(\(\*(_\d+)\)\.0: usize\)$", s)
        if m:
            st.ghost = st.ghost | {"idx:" + m.group(2)}

    def after_call(eng, st, bb, site, stmt, dst, callee, args, argv):
        if strip_generics(callee).endswith("::is_rename") and dst:
            dpath, _ = eng.resolve(st, dst)
            v = st.store.get(dpath)
            if v is not None and z3.is_bool(v):
                st.store["ghost:rename"] = v
                st.store["ghost:nb"] = z3.BitVecVal(int(st.store["ghost:nb"].as_long()) if "ghost:nb" in st.store else 0, 8)
        if callee_is(callee, "rollback"):
            st.store["ghost:nb"] = z3.BitVecVal(0, 8)
            st.store.pop("ghost:rename", None)

    def end_iteration(eng, st, bb, where):
        rn = st.store.get("ghost:rename")
        nb = st.store.get("ghost:nb")
        if rn is None or nb is None:
            return
        renames[0] += 1
        if nb.as_long() < 2:
            ok, model = eng.feasible(st, [rn])
            eng.record_query("%s rename backups" % bb, list(st.pc) + [rn])
            if ok:
                found.append({"bb": bb, "stmt": where, "what": "iteration for a renaming file patch ends with fewer than two backup files written",
                              "model": {}, "trace": list(st.trace[-30:])})
        st.store.pop("ghost:rename", None)

    def on_call(eng, st, bb, site, stmt, dst, callee, args, nxt):
        if callee_is(callee, "save_backup_file"):
            reached[0] += 1
            idxs = [g[4:] for g in st.ghost if g.startswith("idx:")]
            down = eng.read_path(st, "_2", "usize")
            for r in idxs:
                ref = st.store.get(r)
                if isinstance(ref, Ref):
                    idx = eng.read_path(st, ref.target + ".0", "usize")
                    ok, model = eng.feasible(st, [z3.ULT(idx, down)])
                    eng.record_query("%s backup below window" % bb, list(st.pc) + [z3.ULT(idx, down)])
                    if ok:
                        found.append({"bb": bb, "stmt": stmt[:160], "what": "a backup is written for a patch below down_to_index",
                                      "model": model_values(model, ("in_",)), "trace": list(st.trace[-30:])})
            nb = st.store.get("ghost:nb")
            st.store["ghost:nb"] = z3.BitVecVal((nb.as_long() if nb is not None else 0) + 1, 8)
        if re.search(r"as Iterator>::next$", callee):
            end_iteration(eng, st, bb, "next iteration")
        return None

    def on_return(eng, st, bb):
        d0 = st.store.get("_0#disc")
        if d0 is not None and z3.is_bv_value(d0) and d0.as_long() == 0:
            end_iteration(eng, st, bb, "return Ok")

    eng = Engine(fns, fn, variants, hooks={"on_call": on_call, "after_call": after_call, "on_stmt": on_stmt, "on_return": on_return}, unroll=3)
    seeds = {"_2", "_0"}
    for bb, stmts in fn.blocks.items():
        for s_ in stmts:
            m = re.match(r"(_\d+) = copy \(\(\*(_\d+)\)\.0: usize\)$", s_)
            if m:
                seeds |= {m.group(1), m.group(2)}
            m = callm(s_, need_dst=True)
            if m and strip_generics(m.group(2)).endswith("::is_rename"):
                seeds.add(m.group(1))
    eng.seeds = seeds
    eng.run()
    return summarize(eng, found, {"save_backup_file_sites_reached": reached[0], "rename_iterations_checked": renames[0]}, work, "c08l",
                     witness_ok=reached[0] >= 2 and renames[0] > 0, witness_note="backup calls or rename iterations not reached")


# ------------------------------------------------------------------------------------------ C13
def vc_rej_only_failed(fns, variants, work):
    """rollback_and_save_rej_files: a reject file is created only for a file patch whose report failed and whose
    patch index equals rejected_patch_index."""
    fn = find_fn(fns, r"rollback_and_save_rej_files$")
    found, reached = [], [0]

    def on_stmt(eng, st, bb, s):
        m = re.match(r"(_\d+) = copy \(\(\*(_\d+)\)\.0: usize\)$", s)
        if m:
            st.ghost = frozenset(g for g in st.ghost if not g.startswith("idx:")) | {"idx:" + m.group(2)}

    def after_call(eng, st, bb, site, stmt, dst, callee, args, argv):
        if strip_generics(callee).endswith("FilePatchApplyReport::failed") and dst:
            dpath, _ = eng.resolve(st, dst)
            v = st.store.get(dpath)
            if v is not None and z3.is_bool(v):
                st.store["ghost:failed"] = v
        if callee_is(callee, "rollback"):
            st.store.pop("ghost:failed", None)

    def on_call(eng, st, bb, site, stmt, dst, callee, args, nxt):
        if re.search(r"File::create::<", callee):
            reached[0] += 1
            fl = st.store.get("ghost:failed")
            if fl is None:
                found.append({"bb": bb, "stmt": stmt[:160], "what": "reject file created without consulting report.failed()", "model": {}, "trace": list(st.trace[-30:])})
            else:
                ok, model = eng.feasible(st, [z3.Not(fl)])
                eng.record_query("%s rej for ok report" % bb, list(st.pc) + [z3.Not(fl)])
                if ok:
                    found.append({"bb": bb, "stmt": stmt[:160], "what": "reject file created for a file patch whose hunks all applied", "model": {}, "trace": list(st.trace[-30:])})
            rej = eng.read_path(st, "_2", "usize")
            idxs = [g[4:] for g in st.ghost if g.startswith("idx:")]
            if not idxs:
                found.append({"bb": bb, "stmt": stmt[:160], "what": "reject file created without comparing the patch index", "model": {}, "trace": []})
            for r in idxs:
                ref = st.store.get(r)
                if isinstance(ref, Ref):
                    idx = eng.read_path(st, ref.target + ".0", "usize")
                    ok, model = eng.feasible(st, [idx != rej])
                    eng.record_query("%s rej for other patch" % bb, list(st.pc) + [idx != rej])
                    if ok:
                        found.append({"bb": bb, "stmt": stmt[:160], "what": "reject file created for a patch other than the rejected one",
                                      "model": model_values(model, ("in_",)), "trace": list(st.trace[-30:])})
        return None

    eng = Engine(fns, fn, variants, hooks={"on_call": on_call, "after_call": after_call, "on_stmt": on_stmt})
    seeds = {"_2"}
    for bb, stmts in fn.blocks.items():
        for s_ in stmts:
            m = re.match(r"(_\d+) = copy \(\(\*(_\d+)\)\.0: usize\)$", s_)
            if m:
                seeds |= {m.group(1), m.group(2)}
            m = callm(s_, need_dst=True)
            if m and strip_generics(m.group(2)).endswith("FilePatchApplyReport::failed"):
                seeds.add(m.group(1))
    eng.seeds = seeds
    eng.run()
    return summarize(eng, found, {"rej_create_sites_reached": reached[0]}, work, "c13r", witness_ok=reached[0] > 0, witness_note="File::create not reached")


def vc_rej_name_beside_file(fns, variants, work):
    """make_rej_filename: on every path the result is made FROM the path it was given by a std::path operation that keeps the
    directory part (with_extension / with_file_name on that very path; a PathBuf built from a bare name would drop the directory and
    put every reject file into the working directory)."""
    fn = find_fn(fns, r"(^|::)make_rej_filename$")
    found, rets = [], [0]

    def after_call(eng, st, bb, site, stmt, dst, callee, args, argv):
        if dst and re.fullmatch(r"_0", dst.strip()):
            c = strip_generics(callee)
            keeps = re.search(r"Path::(with_extension|with_file_name)$", c) is not None
            src = args[0].strip() if args else ""
            st.store["ghost:ret_ok"] = z3.BoolVal(bool(keeps and re.search(r"\b_2\b|\b_1\b", src)))
            st.store["ghost:ret_by"] = z3.BoolVal(True)
            st.ghost = st.ghost | {"retcall:%s" % c[-40:]}

    def on_return(eng, st, bb):
        rets[0] += 1
        okv = st.store.get("ghost:ret_ok")
        if okv is None or z3.is_false(okv):
            how = [g[8:] for g in st.ghost if g.startswith("retcall:")]
            ok, _ = eng.feasible(st)
            if ok:
                found.append({"bb": bb, "stmt": "return", "what": "the reject file name is not derived from the patched file's own path by with_extension / with_file_name (%s): its directory part is lost or replaced"
                              % (how[0] if how else "no such call"), "model": {}, "trace": list(st.trace[-10:])})

    eng = Engine(fns, fn, variants, hooks={"after_call": after_call, "on_return": on_return})
    eng.run()
    return summarize(eng, found, {"returns_reached": rets[0]}, work, "c13n", witness_ok=rets[0] >= 2, witness_note="expected the two arms (with / without extension)")


def vc_rej_pass_complete(fns, variants, work):
    """rollback_and_save_rej_files: an Ok return happens only when the stack top was looked at and is not an entry of the
    rejected patch (None, or index < rejected): no arm leaves the loop with file patches of the rejected patch unprocessed."""
    fn = find_fn(fns, r"rollback_and_save_rej_files$")
    found, rets = [], [0]
    IDX = r"(_\d+) = copy \(\(\*(_\d+)\)\.0: usize\)$"

    def on_stmt(eng, st, bb, s):
        m = re.match(IDX, s)
        if m:
            st.ghost = frozenset(g for g in st.ghost if not g.startswith("idx:")) | {"idx:" + m.group(2)}
        elif re.match(r"_0 = Result::<\(\), .*>::Ok\(", s):
            st.ghost = st.ghost | {"ret_ok"}

    def on_call(eng, st, bb, site, stmt, dst, callee, args, nxt):
        c = strip_generics(callee)
        if c.endswith("]>::last") or c.endswith("::last"):
            st.ghost = frozenset(g for g in st.ghost if not g.startswith("idx:")) | {"looked"}
        elif re.search(r"Vec::pop$", c):
            # the top changed: what was looked at says nothing about the new top
            st.ghost = frozenset(g for g in st.ghost if not g.startswith("idx:") and g != "looked") | {"popped"}
        return None

    def on_return(eng, st, bb):
        if "ret_ok" not in st.ghost:
            return
        rets[0] += 1
        if "popped" in st.ghost and "looked" not in st.ghost:
            ok, _ = eng.feasible(st)
            if ok:
                found.append({"bb": bb, "stmt": "return", "what": "the reject pass ends right after dropping an entry, without looking at the next one "
                              "(file patches of the rejected patch can stay unprocessed: no rollback, no .rej)", "model": {}, "trace": list(st.trace[-30:])})
            return
        rej = eng.read_path(st, "_2", "usize")
        for r in [g[4:] for g in st.ghost if g.startswith("idx:")]:
            ref = st.store.get(r)
            if isinstance(ref, Ref):
                idx = eng.read_path(st, ref.target + ".0", "usize")
                ok, model = eng.feasible(st, [z3.UGE(idx, rej)])
                eng.record_query("%s pass ends on an entry of the rejected patch" % bb, list(st.pc) + [z3.UGE(idx, rej)])
                if ok:
                    found.append({"bb": bb, "stmt": "return", "what": "the reject pass ends while the stack top still belongs to the rejected patch",
                                  "model": model_values(model, ("in_",)), "trace": list(st.trace[-30:])})

    eng = Engine(fns, fn, variants, hooks={"on_call": on_call, "on_stmt": on_stmt, "on_return": on_return})
    seeds = {"_2", "_0"}
    for bb, stmts in fn.blocks.items():
        for s_ in stmts:
            m = re.match(IDX, s_)
            if m:
                seeds |= {m.group(1), m.group(2)}
    eng.seeds = seeds
    eng.run()
    return summarize(eng, found, {"ok_returns_reached": rets[0]}, work, "c13p", witness_ok=rets[0] > 0, witness_note="Ok return not reached")


def vc_worker_stop_strict(fns, variants, work):
    """apply_worker: a file patch with index > earliest_broken is never applied, one with index == earliest_broken still is."""
    fn = find_fn(fns, r"^apply_worker$")
    found, reached, eq_ok = [], [0], [0]

    def after_call(eng, st, bb, site, stmt, dst, callee, args, argv):
        if re.search(r"Atomic::<usize>::load$|AtomicUsize::load$", callee) and dst:
            dpath, _ = eng.resolve(st, dst)
            v = st.store.get(dpath)
            if v is not None and z3.is_bv(v):
                st.store["ghost:earliest"] = v

    def on_call(eng, st, bb, site, stmt, dst, callee, args, nxt):
        if callee_is(callee, "apply_one_file_patch"):
            reached[0] += 1
            idx, _, _ = eng.operand(st, args[1])
            e = st.store.get("ghost:earliest")
            if idx is None or e is None:
                found.append({"bb": bb, "stmt": stmt[:160], "what": "file patch applied without comparing its index with the earliest broken index", "model": {}, "trace": []})
            else:
                ok, model = eng.feasible(st, [z3.UGT(idx, e)])
                eng.record_query("%s apply past broken" % bb, list(st.pc) + [z3.UGT(idx, e)])
                if ok:
                    found.append({"bb": bb, "stmt": stmt[:160], "what": "a file patch past the earliest broken patch is applied", "model": model_values(model, ("c_",)), "trace": []})
                ok, _ = eng.feasible(st, [idx == e])
                if ok:
                    eq_ok[0] += 1
        return None

    eng = Engine(fns, fn, variants, hooks={"on_call": on_call, "after_call": after_call})
    seeds = set()
    for bb, stmts in fn.blocks.items():
        for s_ in stmts:
            m = callm(s_, need_dst=True)
            if m and re.search(r"Atomic::<usize>::load$", m.group(2)):
                seeds.add(m.group(1))
            m = callm(s_)
            if m and callee_is(m.group(2).strip(), "apply_one_file_patch"):
                seeds |= set(re.findall(r"_\d+", mirvc.split_top(m.group(3))[1]))
    eng.seeds = seeds
    eng.run()
    r = summarize(eng, found, {"apply_sites_reached": reached[0], "reachable_with_index_equal_earliest": eq_ok[0]}, work, "c13w",
                  witness_ok=reached[0] > 0, witness_note="apply_one_file_patch not reached")
    if r["verdict"] == "holds" and eq_ok[0] == 0:
        r["verdict"] = "violation"
        r["candidates"] = [{"bb": "-", "stmt": "-", "what": "file patches of the earliest broken patch itself are no longer attempted (index == earliest is unreachable)", "model": {}, "trace": []}]
    return r


# ------------------------------------------------------------------------------------------ C04 (driver glue)
def vc_rollback_direction(fns, variants, work, fn_pat, tag, sig=None):
    """Every call of FilePatch::rollback in the driver glue passes the direction recorded in the very report it
    passes as third argument (FilePatchApplyReport::direction(&report)), never a constant."""
    fn = find_fn(fns, fn_pat, sig)
    found, reached = [], [0]

    def after_call(eng, st, bb, site, stmt, dst, callee, args, argv):
        if strip_generics(callee).endswith("FilePatchApplyReport::direction") and dst:
            dpath, _ = eng.resolve(st, dst)
            tgt = argv[0][0]
            if isinstance(tgt, Ref):
                st.store["ghost:dir_of"] = Ref(tgt.target)
                st.store["ghost:dir_sym"] = Ref(dpath)
                st.ghost = st.ghost | {"dir:" + dpath}

    def on_call(eng, st, bb, site, stmt, dst, callee, args, nxt):
        c = strip_generics(callee)
        if c.endswith("FilePatch::rollback") or c.endswith("FilePatch::<'_, &[u8]>::rollback") or re.search(r"FilePatch(::<[^>]*>)?::rollback$", callee):
            reached[0] += 1
            darg = args[2].strip()
            rep, _, _ = eng.operand(st, args[3])
            src = st.store.get("ghost:dir_of")
            ok_dir = False
            m = re.match(r"(?:copy|move) (_\d+)$", darg)
            if m and ("dir:" + m.group(1)) in st.ghost and isinstance(rep, Ref) and isinstance(src, Ref) and rep.target == src.target:
                ok_dir = True
            if not ok_dir:
                found.append({"bb": bb, "stmt": stmt[:200], "what": "rollback is not given the direction recorded in the report it undoes (argument: %s)" % darg[:60],
                              "model": {}, "trace": list(st.trace[-20:])})
        return None

    eng = Engine(fns, fn, variants, hooks={"on_call": on_call, "after_call": after_call})
    seeds = set()
    for bb, stmts in fn.blocks.items():
        for s_ in stmts:
            m = callm(s_)
            if m and (re.search(r"FilePatch(::<[^>]*>)?::rollback$", m.group(2)) or strip_generics(m.group(2)).endswith("FilePatchApplyReport::direction")):
                seeds |= set(re.findall(r"_\d+", m.group(3)))
                if m.group(1):
                    seeds.add(m.group(1))
    if not seeds:
        raise KeyError("no FilePatch::rollback call in %s" % fn.name)
    eng.seeds = seeds
    eng.run()
    return summarize(eng, found, {"rollback_call_sites_reached": reached[0]}, work, tag, witness_ok=reached[0] > 0, witness_note="rollback call not reached")


# ------------------------------------------------------------------------------------------ C16
def vc_choose_filename(fns, variants, work):
    """choose_filename_to_patch: decision table.  Result is the old name iff it is present and (the new one is absent, or both are
    equal, or the old file is in memory and not deleted, or it is not in memory and exists on disk); otherwise the new name;
    with neither name present there is no normal return."""
    fn = find_fn(fns, r"^choose_filename_to_patch$")
    found, rets = [], [0]
    deleted_idx = mirvc.struct_field_index("ModifiedFile", "deleted")

    def after_call(eng, st, bb, site, stmt, dst, callee, args, argv):
        if not dst:
            return
        dpath, _ = eng.resolve(st, dst)
        if re.search(r"Cow<'_, Path> as PartialEq>::eq$", callee):
            st.store["ghost:eq"] = st.store.get(dpath)
        elif re.search(r"HashMap::<.*>::get::<", callee):
            st.store["ghost:get_disc"] = eng.read_path(st, dpath + "#disc", "isize")
            ref = eng.read_path(st, dpath + "@Some.0", "&ModifiedFile")
            st.store["ghost:deleted"] = eng.read_path(st, "%s.%d" % (ref.target, deleted_idx), "bool")
        elif re.search(r"Path::exists$", callee):
            st.store["ghost:exists"] = st.store.get(dpath)

    def on_return(eng, st, bb):
        rets[0] += 1
        res = st.store.get("_0")
        old_d = eng.read_path(st, "_2#disc", "isize")
        new_d = eng.read_path(st, "_3#disc", "isize")
        old_r = eng.read_path(st, "_2@Some.0", "&std::borrow::Cow<'_, std::path::Path>")
        new_r = eng.read_path(st, "_3@Some.0", "&std::borrow::Cow<'_, std::path::Path>")
        T, F = z3.BoolVal(True), z3.BoolVal(False)
        eq = st.store.get("ghost:eq", F)
        gd = st.store.get("ghost:get_disc")
        dele = st.store.get("ghost:deleted", F)
        ex = st.store.get("ghost:exists", F)
        in_mem = (gd == 1) if gd is not None else F
        looked = gd is not None
        old_exists = z3.If(in_mem, z3.Not(dele), ex) if looked else F
        want_old = z3.And(old_d == 1, z3.Or(new_d == 0, eq, old_exists))
        want_new = z3.And(new_d == 1, z3.Or(old_d == 0, z3.And(z3.Not(eq), z3.Not(old_exists))))
        if not isinstance(res, Ref):
            found.append({"bb": bb, "stmt": "return", "what": "result is not one of the two names", "model": {}, "trace": list(st.trace[-20:])})
            return
        if res.target == old_r.target:
            cond = want_old
        elif res.target == new_r.target:
            cond = want_new
        else:
            found.append({"bb": bb, "stmt": "return", "what": "result is neither the old nor the new name (%s)" % res.target, "model": {}, "trace": list(st.trace[-20:])})
            return
        # the lookups must actually have been made when both names are present and differ
        ok, model = eng.feasible(st, [z3.Not(cond)])
        eng.record_query("%s decision" % bb, list(st.pc) + [z3.Not(cond)])
        if ok:
            found.append({"bb": bb, "stmt": "return", "what": "wrong name chosen: returns the %s name although the rule says otherwise" % ("old" if res.target == old_r.target else "new"),
                          "model": model_values(model, ("in_", "c_")), "trace": list(st.trace[-20:])})
        ok, _ = eng.feasible(st, [old_d == 0, new_d == 0])
        if ok:
            found.append({"bb": bb, "stmt": "return", "what": "returns normally although neither name is present", "model": {}, "trace": list(st.trace[-20:])})

    eng = Engine(fns, fn, variants, hooks={"after_call": after_call, "on_return": on_return})
    eng.run()
    return summarize(eng, found, {"returns_checked": rets[0]}, work, "c16c", witness_ok=rets[0] >= 4, witness_note="fewer than 4 return paths explored")


def vc_series_defaults(fns, variants, work):
    """read_series_file: every SeriesPatch that is built has strip == N when a usable -pN was given and strip == 1 otherwise;
    a line without options gives strip 1 and no -R."""
    found, reached, total = [], [0], {"queries": 0, "states": 0, "paths": 0, "solver_s": 0.0}
    strip_idx = mirvc.struct_field_index("SeriesPatch", "strip")
    rev_idx = mirvc.struct_field_index("SeriesPatch", "reverse")
    engines = []
    for name in sorted(fns):
        if not re.match(r"(cmd::)?read_series_file(::\{closure#\d+\})*$", name):
            continue
        fn = fns[name]
        if not any(re.search(r"= SeriesPatch \{", s_) for stmts in fn.blocks.values() for s_ in stmts):
            continue
        opts = {}

        def after_call(eng, st, bb, site, stmt, dst, callee, args, argv, opts=opts):
            c = strip_generics(callee)
            if re.search(r"Option::<usize>::(unwrap_or|unwrap_or_default|unwrap_or_else)", callee) and argv and argv[0][1] is not None:
                p = argv[0][1]
                opts["disc"] = eng.read_path(st, p + "#disc", "isize")
                opts["pay"] = eng.read_path(st, p + "@Some.0", "usize")

        def on_agg(eng, st, tyname, dpath, site, opts=opts):
            if not re.search(r"(^|::)SeriesPatch$", tyname.strip()):
                return
            reached[0] += 1
            strip = eng.read_path(st, dpath + ".%d" % strip_idx, "usize")
            if "disc" in opts:
                conds = [("no usable -p option but strip != 1", z3.And(opts["disc"] == 0, strip != 1)),
                         ("-pN given but strip != N", z3.And(opts["disc"] == 1, strip != opts["pay"]))]
            else:
                rev = eng.read_path(st, dpath + ".%d" % rev_idx, "bool")
                conds = [("a series line without options gets strip != 1", strip != 1)]
                if z3.is_bool(rev):
                    conds.append(("a series line without options is reversed", rev))
            for what, c in conds:
                ok, model = eng.feasible(st, [c])
                eng.record_query("%s %s" % (site, what[:30]), list(st.pc) + [c])
                if ok:
                    found.append({"bb": site, "stmt": tyname, "what": what, "model": model_values(model, ("in_", "c_")), "trace": list(st.trace[-20:])})

        eng = Engine(fns, fn, variants, hooks={"after_call": after_call, "on_aggregate": on_agg})
        seeds = set()
        for bb, stmts in fn.blocks.items():
            for s_ in stmts:
                m = re.match(r"(_\d+) = SeriesPatch \{ (.*) \}$", s_)
                if m:
                    seeds.add(m.group(1))
                    seeds |= set(re.findall(r"_\d+", m.group(2)))
                m = callm(s_, need_dst=True)
                if m and re.search(r"Option::<usize>::unwrap_or", m.group(2)):
                    seeds.add(m.group(1))
                    seeds |= set(re.findall(r"_\d+", m.group(3)))
        eng.seeds = seeds
        eng.run()
        engines.append(eng)
    if not engines:
        return {"verdict": "inconclusive", "reason": "no function of read_series_file builds a SeriesPatch", "queries": 0, "states": 0, "solver_s": 0.0}
    res = summarize(engines[0], found, {"series_entries_built": reached[0]}, work, "c16s", witness_ok=reached[0] >= 2, witness_note="expected two construction sites (with / without options)")
    for e in engines[1:]:
        r2 = summarize(e, [], {}, work, "c16s2", witness_ok=True, witness_note="")
        for k in ("queries", "states"):
            res[k] = res.get(k, 0) + r2.get(k, 0)
        if r2.get("verdict") == "inconclusive" and res.get("verdict") == "holds":
            res["verdict"], res["reason"] = "inconclusive", r2.get("reason")
    return res


def vc_header_writes_modes(fns, variants, work):
    """write_file_patch_header_to: a file patch that carries an old (new) mode gets a line setting the old (new) mode -- one of the
    keywords the parser maps to that side -- whatever the other side's mode is; the Ok return is reached with a mode unwritten
    only if that mode is None."""
    fn = find_fn(fns, r"(^|::)write_file_patch_header_to$")
    found, reached = [], {"ok_returns": 0, "mode_lines": 0}
    OLD_KW = (b"old mode ", b"deleted file mode ")
    NEW_KW = (b"new mode ", b"new file mode ")

    def on_stmt(eng, st, bb, s):
        m = re.match(r"(_\d+) = const b\"(.*)\";?$", s)
        if m:
            try:
                lit = m.group(2).encode().decode("unicode_escape").encode("latin-1")
            except Exception:
                lit = m.group(2).encode("utf-8", "replace")
            side = "old" if any(k in lit for k in OLD_KW) else ("new" if any(k in lit for k in NEW_KW) else None)
            if side:
                st.ghost = st.ghost | {"fmt:" + side}
        elif re.match(r"_0 = Result::<\(\), .*>::Ok\(", s):
            reached["ok_returns"] += 1
            for side in ("old", "new"):
                if ("wrote:" + side) in st.ghost:
                    continue
                d = st.store.get("ghost:%s_disc" % side)
                if d is None:
                    found.append({"bb": bb, "stmt": s[:100], "what": "the header is finished without the file patch's %s mode having been consulted" % side, "model": {}, "trace": list(st.trace[-10:])})
                    continue
                ok, model = eng.feasible(st, [d == 1])
                eng.record_query("%s %s mode unwritten" % (bb, side), list(st.pc) + [d == 1])
                if ok:
                    found.append({"bb": bb, "stmt": s[:100], "what": "a file patch with %s %s mode is written without a line for it (the mode is lost by write-then-parse)" % ("an" if side == "old" else "a", side),
                                  "model": model_values(model, ("c_", "in_")), "trace": list(st.trace[-14:])})

    def on_call(eng, st, bb, site, stmt, dst, callee, args, nxt):
        if re.search(r"Write>::write_fmt$", callee):
            for side in ("old", "new"):
                if ("fmt:" + side) in st.ghost:
                    reached["mode_lines"] += 1
                    st.ghost = (st.ghost - {"fmt:" + side}) | {"wrote:" + side}
        return None

    def after_call(eng, st, bb, site, stmt, dst, callee, args, argv):
        m = re.search(r"FilePatch::<.*>::(old|new)_permissions$", callee)
        if m and dst:
            dpath, _ = eng.resolve(st, dst)
            st.store["ghost:%s_disc" % m.group(1)] = eng.read_path(st, dpath + "#disc", "isize")

    eng = Engine(fns, fn, variants, hooks={"on_stmt": on_stmt, "on_call": on_call, "after_call": after_call})
    seeds = set()
    for bb, stmts in fn.blocks.items():
        for s_ in stmts:
            m = callm(s_, need_dst=True)
            if m and re.search(r"(old|new)_permissions$", m.group(2)):
                seeds.add(m.group(1))
    eng.seeds = seeds
    eng.run()
    return summarize(eng, found, {"ok_returns_reached": reached["ok_returns"], "mode_lines_written": reached["mode_lines"]}, work, "c12h",
                     witness_ok=reached["ok_returns"] > 0 and reached["mode_lines"] >= 2, witness_note="%r" % reached)


def vc_closest_match_space(fns, variants, work):
    """find_closest_match (hunk writer), for slices of ANY length: the outer range is exactly 0..(a.len + b.len), the inner one
    0..min(i + 1, a.len); when the search is exhausted the result is (a.len, b.len) (everything left is flushed as changed);
    a reported match (j, k) has j < a.len, k < b.len, j + k == i.  Loops are not unrolled to a bound here: at each loop head the
    counter is replaced by an arbitrary value inside its range (over-approximates every iteration), then one step is followed."""
    fn = find_fn(fns, r"(^|::)find_closest_match$")
    found, reached = [], {"ranges": 0, "exhausted": 0, "match": 0}
    ranges = []   # (site, end value) in construction order on the path

    def lens(eng, st):
        a = eng.read_path(st, "_1", eng.fn.types["_1"])
        b = eng.read_path(st, "_2", eng.fn.types["_2"])
        return eng.obj_len(st, a.target), eng.obj_len(st, b.target)

    def on_agg(eng, st, tyname, dpath, site):
        if "Range" not in tyname:
            return
        reached["ranges"] += 1
        la, lb = lens(eng, st)
        start = eng.read_path(st, dpath + ".0", "usize")
        end = eng.read_path(st, dpath + ".1", "usize")
        nth = sum(1 for t in st.ghost if t.startswith("rng:"))
        st.ghost = st.ghost | {"rng:%d" % nth}
        if nth == 0:
            want, what = la + lb, "the outer search range is not 0..(a.len + b.len): matches further away are never looked for"
        else:
            i = st.store.get("ghost:i")
            if i is None:
                found.append({"bb": site, "stmt": tyname, "what": "inner range built before the outer counter was read", "model": {}, "trace": []})
                return
            want, what = z3.If(z3.ULE(i + 1, la), i + 1, la), "the inner search range is not 0..min(i + 1, a.len)"
        c = z3.Or(start != 0, end != want)
        ok, model = eng.feasible(st, [c])
        eng.record_query("%s range %d" % (site, nth), list(st.pc) + [c])
        if ok:
            found.append({"bb": site, "stmt": tyname, "what": what, "model": model_values(model, ("in_", "len_", "c_", "hv_")), "trace": list(st.trace[-12:])})

    def on_call(eng, st, bb, site, stmt, dst, callee, args, nxt):
        if re.search(r"Range<usize> as Iterator>::next$", callee):
            v, pth, ty = eng.operand(st, args[0])
            if isinstance(v, Ref):
                r = v.target
                e0 = eng.read_path(st, r + ".1", "usize")
                h = z3.BitVec("hv_%s_%d" % (site, eng.states), 64)
                st.pc.append(z3.ULE(h, e0))
                st.store[r + ".0"] = h          # any iteration of this loop
                outer = "rng:1" not in st.ghost or bb == first_next[0]
                if first_next[0] is None:
                    first_next[0] = bb
                if bb == first_next[0]:
                    st.store["ghost:i"] = h
                    st.ghost = frozenset(g for g in st.ghost if g != "rng:1")
        return None

    def on_return(eng, st, bb):
        la, lb = lens(eng, st)
        r0 = eng.read_path(st, "_0.0", "usize")
        r1 = eng.read_path(st, "_0.1", "usize")
        i = st.store.get("ghost:i")
        exhausted = not any(re.search(r"PartialEq>::eq", t) for t in st.trace[-6:]) and "matched" not in st.ghost
        if exhausted:
            reached["exhausted"] += 1
            c, what = z3.Or(r0 != la, r1 != lb), "search exhausted but the result is not (a.len, b.len): lines are left unwritten or written twice"
        else:
            reached["match"] += 1
            c = z3.Or(z3.UGE(r0, la), z3.UGE(r1, lb)) if i is None else z3.Or(z3.UGE(r0, la), z3.UGE(r1, lb), r0 + r1 != i)
            what = "a reported match lies outside the slices or off the diagonal being searched"
        ok, model = eng.feasible(st, [c])
        eng.record_query("%s return" % bb, list(st.pc) + [c])
        if ok:
            found.append({"bb": bb, "stmt": "return", "what": what, "model": model_values(model, ("in_", "len_", "c_", "hv_")), "trace": list(st.trace[-12:])})

    def after_call(eng, st, bb, site, stmt, dst, callee, args, argv):
        if re.search(r"as PartialEq>::eq$", callee):
            st.ghost = st.ghost | {"eqseen"}

    def on_stmt(eng, st, bb, s):
        # the match return is the only place that builds _0 from locals other than the two lengths
        if re.match(r"_0 = \(copy _\d+, move _\d+\)$", s):
            st.ghost = st.ghost | {"matched"}

    first_next = [None]
    eng = Engine(fns, fn, variants, hooks={"on_call": on_call, "on_aggregate": on_agg, "on_return": on_return, "after_call": after_call, "on_stmt": on_stmt}, unroll=2)
    eng.run()
    ok_w = reached["ranges"] >= 2 and reached["exhausted"] > 0 and reached["match"] > 0
    return summarize(eng, found, {"range_sites_reached": reached["ranges"], "exhausted_returns_reached": reached["exhausted"], "match_returns_reached": reached["match"]},
                     work, "c12m", witness_ok=ok_w, witness_note="expected both ranges, an exhausted return and a match return: %r" % reached)


def vc_rename_has_both_names(fns, variants, work):
    """build_filepatch: a FilePatch is only ever marked as a rename when both file names are real (not absent, not /dev/null).
    The consumers of is_rename() (choose_filename_to_patch, ModifiedFiles::rollback, the distributor) unwrap both names."""
    fn = find_fn(fns, r"::build_filepatch$")
    found, reached = [], [0]

    def real(eng, st, k):
        d = eng.read_path(st, "_1.%d#disc" % k, "isize")
        dp = eng.read_path(st, "_1.%d@Some.0#disc" % k, "isize")
        return z3.And(d == 1, dp == 0)

    def on_call(eng, st, bb, site, stmt, dst, callee, args, nxt):
        if re.search(r"FilePatchBuilder::<.*>::is_rename$", callee):
            reached[0] += 1
            b, _, _ = eng.operand(st, args[1])
            if b is None or not z3.is_bool(b):
                found.append({"bb": bb, "stmt": stmt[:160], "what": "the rename flag is not a function of the metadata", "model": {}, "trace": []})
                return None
            c = z3.And(b, z3.Not(z3.And(real(eng, st, 0), real(eng, st, 1))))
            ok, model = eng.feasible(st, [c])
            eng.record_query("%s rename without both names" % bb, list(st.pc) + [c])
            if ok:
                found.append({"bb": bb, "stmt": stmt[:160], "what": "a file patch is marked as a rename although one of its names is missing or /dev/null (the consumers unwrap both)",
                              "model": model_values(model, ("in_",)), "trace": list(st.trace[-12:])})
        return None

    eng = Engine(fns, fn, variants, hooks={"on_call": on_call})
    eng.run()
    return summarize(eng, found, {"is_rename_sites_reached": reached[0]}, work, "c11r", witness_ok=reached[0] > 0, witness_note="is_rename call not reached")


def vc_every_file_patch_registered(fns, variants, work):
    """parallel::apply_patches, scheduling loop: between taking a file patch from a patch's list and taking the next one (or leaving
    the loop), FilenameDistributor::add has been called for it; nothing is registered after build().  (What add/build do with the
    names is decided by Kani; this VC is about the driver feeding every file patch in.)"""
    fn = find_fn(fns, r"^parallel::apply_patches$")
    found, reached = [], {"next": 0, "add": 0}
    NEXT = r"slice::Iter<'_, (libpatch::patch::)?FilePatch<.*>> as Iterator>::next$"

    def pending(eng, st):
        d = st.store.get("ghost:taken")
        if d is None:
            return False
        ok, _ = eng.feasible(st, [d == 1])
        eng.record_query("pending", list(st.pc) + [d == 1])
        return ok

    def on_call(eng, st, bb, site, stmt, dst, callee, args, nxt):
        if re.search(NEXT, callee):
            reached["next"] += 1
            if pending(eng, st):
                found.append({"bb": bb, "stmt": stmt[:160], "what": "a file patch is taken from the list while the previous one was never handed to FilenameDistributor::add "
                              "(its names are not related / not registered: two workers can end up with one file)", "model": {}, "trace": list(st.trace[-14:])})
        elif re.search(r"FilenameDistributor::<.*>::add$", callee):
            reached["add"] += 1
            st.store.pop("ghost:taken", None)
        elif re.search(r"FilenameDistributor::<.*>::build$", callee):
            if pending(eng, st):
                found.append({"bb": bb, "stmt": stmt[:160], "what": "the worker map is built while a file patch taken from the list was never registered", "model": {}, "trace": list(st.trace[-14:])})
            return []        # the rest of the function is other checks' subject
        return None

    def after_call(eng, st, bb, site, stmt, dst, callee, args, argv):
        if not dst:
            return
        if re.search(NEXT, callee):
            dpath, _ = eng.resolve(st, dst)
            st.store["ghost:taken"] = eng.read_path(st, dpath + "#disc", "isize")

    eng = Engine(fns, fn, variants, hooks={"on_call": on_call, "after_call": after_call})
    seeds = set()
    for bb, stmts in fn.blocks.items():
        for s_ in stmts:
            m = callm(s_, need_dst=True)
            if m and re.search(NEXT, m.group(2)):
                seeds.add(m.group(1))
    eng.seeds = seeds
    eng.run()
    return summarize(eng, found, {"next_sites_reached": reached["next"], "add_sites_reached": reached["add"]}, work, "c07f",
                     witness_ok=reached["next"] > 1 and reached["add"] > 0, witness_note="loop not entered twice / add not reached: %r" % reached)


def vc_unsafe_component_table(fns, variants, work):
    """is_unsafe's closure: a component is dangerous iff it is a Prefix, the root or '..' (std::path::Component's declaration
    order Prefix, RootDir, CurDir, ParentDir, Normal is the trusted fact behind the discriminant numbers)."""
    fn = find_fn(fns, r"(^|::)is_unsafe::\{closure#0\}$")
    found, rets = [], [0]
    DANGER = {0: True, 1: True, 2: False, 3: True, 4: False}

    def on_return(eng, st, bb):
        rets[0] += 1
        r = eng.read_path(st, "_0", "bool")
        d = eng.read_path(st, "_2#disc", "isize")
        if not z3.is_bool(r):
            found.append({"bb": bb, "stmt": "return", "what": "result is not a function of the component kind", "model": {}, "trace": list(st.trace[-10:])})
            return
        for k, want in DANGER.items():
            c = z3.And(d == k, r != z3.BoolVal(want))
            ok, model = eng.feasible(st, [c])
            eng.record_query("%s kind %d" % (bb, k), list(st.pc) + [c])
            if ok:
                found.append({"bb": bb, "stmt": "return", "what": "component kind %d (%s) is classified %s" % (k, ["Prefix", "RootDir", "CurDir", "ParentDir", "Normal"][k],
                              "safe" if want else "dangerous"), "model": {}, "trace": list(st.trace[-10:])})

    eng = Engine(fns, fn, variants, hooks={"on_return": on_return})
    eng.seeds = {"_0", "_2"}
    eng.run()
    return summarize(eng, found, {"returns_reached": rets[0]}, work, "c19t", witness_ok=rets[0] > 0, witness_note="no return reached")


def vc_direction_from_series(fns, variants, work):
    """apply_one_file_patch: FilePatch::apply is called with Revert iff the series entry's `reverse` flag is set, and with config.fuzz."""
    fn = find_fn(fns, r"::apply_one_file_patch$")
    found, reached = [], [0]
    rev_idx = mirvc.struct_field_index("SeriesPatch", "reverse")

    def on_stmt(eng, st, bb, s):
        m = re.match(r"(_\d+) = copy \(\(\*(_\d+)\)\.%d: bool\)$" % rev_idx, s)
        if m and "SeriesPatch" in eng.fn.types.get(m.group(2), ""):
            st.ghost = st.ghost | {"rev:" + m.group(1)}

    def on_call(eng, st, bb, site, stmt, dst, callee, args, nxt):
        if re.search(r"FilePatch(::<[^>]*>)?::apply$", callee):
            reached[0] += 1
            revs = [g[4:] for g in st.ghost if g.startswith("rev:")]
            d, dp, _ = eng.operand(st, args[2])
            disc = st.store.get(dp + "#disc") if dp else None
            if not revs or disc is None:
                found.append({"bb": bb, "stmt": stmt[:160], "what": "apply direction is not derived from the series entry's reverse flag", "model": {}, "trace": list(st.trace[-20:])})
                return None
            # the flag's symbol: path condition decides it on this path
            ref_local = revs[0]
            # re-read the flag through the same place expression
            for bb2, stmts in eng.fn.blocks.items():
                for s_ in stmts:
                    m = re.match(r"%s = copy (\(\(\*(_\d+)\)\.%d: bool\))$" % (re.escape(ref_local), rev_idx), s_)
                    if m:
                        rv, _, _ = eng.operand(st, "copy " + m.group(1))
                        want = z3.If(rv, z3.BitVecVal(variants["Revert"], 64), z3.BitVecVal(variants["Forward"], 64))
                        ok, model = eng.feasible(st, [disc != want])
                        eng.record_query("%s direction" % bb, list(st.pc) + [disc != want])
                        if ok:
                            found.append({"bb": bb, "stmt": stmt[:160], "what": "patch applied in a direction that does not follow the series entry's -R flag",
                                          "model": model_values(model, ("in_",)), "trace": list(st.trace[-20:])})
            fz, _, _ = eng.operand(st, args[3])
            cf = cfg_field(eng, st, "fuzz", "usize")
            if fz is None or not z3.is_bv(fz):
                found.append({"bb": bb, "stmt": stmt[:160], "what": "fuzz argument is not config.fuzz", "model": {}, "trace": []})
            else:
                ok, model = eng.feasible(st, [fz != cf])
                if ok:
                    found.append({"bb": bb, "stmt": stmt[:160], "what": "fuzz argument differs from config.fuzz", "model": {}, "trace": []})
        return None

    eng = Engine(fns, fn, variants, hooks={"on_call": on_call, "on_stmt": on_stmt})
    seeds = set()
    for bb, stmts in fn.blocks.items():
        for s_ in stmts:
            m = callm(s_)
            if m and re.search(r"FilePatch(::<[^>]*>)?::apply$", m.group(2)):
                a = mirvc.split_top(m.group(3))
                seeds |= set(re.findall(r"_\d+", a[2] + " " + a[3]))
            m = re.match(r"(_\d+) = copy \(\(\*(_\d+)\)\.%d: bool\)$" % rev_idx, s_)
            if m:
                seeds |= {m.group(1), m.group(2)}
    eng.seeds = seeds | cfg_seeds(fn, ["fuzz"])
    eng.run()
    return summarize(eng, found, {"apply_call_sites_reached": reached[0]}, work, "c16d", witness_ok=reached[0] > 0, witness_note="FilePatch::apply not reached")


# ------------------------------------------------------------------------------------------ generic ordering
def vc_must_follow(fns, variants, work, fn_pat, trigger_pat, required_pat, tag, sig=None, ok_returns_only=True, what="required call missing", assume_fn=None, seeds=()):
    """On every path that calls `trigger_pat` and then returns (with Ok, if the function returns a Result and
    ok_returns_only), a call matching `required_pat` happened after the trigger."""
    fn = find_fn(fns, fn_pat, sig)
    found, trig, rets = [], [0], [0]

    def on_call(eng, st, bb, site, stmt, dst, callee, args, nxt):
        c = strip_generics(callee)
        if re.search(trigger_pat, c):
            trig[0] += 1
            st.ghost = (st.ghost - {"req"}) | {"trig"}
        elif re.search(required_pat, c) and "trig" in st.ghost:
            st.ghost = st.ghost | {"req"}
        return None

    def on_return(eng, st, bb):
        if "trig" not in st.ghost or "req" in st.ghost:
            return
        extra = []
        d0 = st.store.get("_0#disc")
        if ok_returns_only and eng.fn.types.get("_0", "").lstrip().startswith(("Result", "std::result::Result")):
            if d0 is None:
                d0 = eng.read_path(st, "_0#disc", "isize")
            extra = [d0 == 0]
        if assume_fn is not None:
            extra = extra + list(assume_fn(eng, st))
        rets[0] += 1
        ok, model = eng.feasible(st, extra)
        eng.record_query("%s %s" % (bb, what[:40]), list(st.pc) + extra)
        if ok:
            found.append({"bb": bb, "stmt": "return", "what": what, "model": {}, "trace": list(st.trace[-25:])})

    eng = Engine(fns, fn, variants, hooks={"on_call": on_call, "on_return": on_return})
    eng.seeds = {"_0"} | set(seeds)
    eng.run()
    return summarize(eng, found, {"trigger_sites_reached": trig[0], "returns_checked": rets[0]}, work, tag, witness_ok=trig[0] > 0,
                     witness_note="trigger call not reached")


FLUSH_PAT = r"Write>::flush$|BufWriter::flush$"


def vc_rename_undo_restores(fns, variants, work):
    """ModifiedFiles::rollback: when the file patch renamed the file (PatchStatus.renamed_over is Some), the renamed-over
    file's state is restored after the content was moved out."""
    idx = mirvc.struct_field_index("PatchStatus", "renamed_over")
    if idx is None:
        raise KeyError("PatchStatus.renamed_over")

    def assume(eng, st):
        ref = eng.read_path(st, "_2", eng.fn.types["_2"])
        return [eng.read_path(st, "%s.%d#disc" % (ref.target, idx), "isize") == 1]

    return vc_must_follow(fns, variants, work, r"::rollback$", r"ModifiedFile::move_out$", r"ModifiedFile::restore_renamed_over$", "c04r",
                          sig=r"_1: &mut ModifiedFiles", what="rename undone without restoring the renamed-over file", assume_fn=assume, seeds={"_2"})


def vc_rename_undo_target(fns, variants, work):
    """ModifiedFiles::rollback: the undo works on the file the patch left its result in (PatchStatus.final_filename), and a rename
    is undone by moving the content back into the file it was taken from at apply time (PatchStatus.target_filename, the name
    choose_filename_to_patch picked), not into whatever the patch text calls the old name."""
    fn = find_fn(fns, r"::rollback$", r"_1: &mut ModifiedFiles")
    i_target = mirvc.struct_field_index("PatchStatus", "target_filename")
    i_final = mirvc.struct_field_index("PatchStatus", "final_filename")
    if i_target is None or i_final is None:
        raise KeyError("PatchStatus.target_filename / final_filename")
    found, reached = [], {"before": 0, "after": 0}

    def on_call(eng, st, bb, site, stmt, dst, callee, args, nxt):
        c = strip_generics(callee)
        if re.search(r"ModifiedFile::move_out$", c):
            st.ghost = st.ghost | {"moved_out"}
        elif re.search(r"ModifiedFile::move_in$", c):
            st.ghost = st.ghost | {"moved_in"}
        elif re.search(r"HashMap::get_mut$|HashMap::get$", c) and "moved_in" not in st.ghost:
            ps = eng.read_path(st, "_2", eng.fn.types["_2"])
            key, _, _ = eng.operand(st, args[1])
            after = "moved_out" in st.ghost
            want = "%s.%d" % (ps.target, i_target if after else i_final)
            reached["after" if after else "before"] += 1
            if not isinstance(key, Ref) or key.target != want:
                ok, _ = eng.feasible(st)
                if ok:
                    found.append({"bb": bb, "stmt": stmt[:160], "what": ("a rename is undone into a file other than the one the content was taken from (PatchStatus.target_filename)" if after
                                  else "the undo does not start from the file the patch left its result in (PatchStatus.final_filename)"), "model": {}, "trace": list(st.trace[-12:])})
        return None

    eng = Engine(fns, fn, variants, hooks={"on_call": on_call})
    eng.run()
    return summarize(eng, found, {"lookup_sites_reached": reached["before"] + reached["after"]}, work, "c04t", witness_ok=reached["before"] > 0 and reached["after"] > 0,
                     witness_note="expected a lookup before and one after move_out: %r" % reached)


def vc_bufwriter_flushed(fns, variants, work, fn_pat, tag, sig=None):
    """Every success return after BufWriter::new has flushed the writer explicitly (drop would swallow the error)."""
    return vc_must_follow(fns, variants, work, fn_pat, r"BufWriter::new$", FLUSH_PAT, tag, sig=sig,
                          what="BufWriter dropped unflushed on a success path (a write error at flush would be swallowed)")


# ------------------------------------------------------------------------------------------ C12 / C01: start-line convention, all values
def function_summary(fns, variants, fn_pat, sig=None):
    """Symbolic summary of a small loop-free function: [(path condition, return value)], over parameter symbols in__1, in__2, ..."""
    fn = find_fn(fns, fn_pat, sig)
    out = []

    def on_return(eng, st, bb):
        v = st.store.get("_0")
        if v is not None and isinstance(v, z3.ExprRef):
            out.append((z3.And(*st.pc) if st.pc else z3.BoolVal(True), v))

    eng = Engine(fns, fn, variants, hooks={"on_return": on_return})
    eng.run()
    params = []
    for i in range(1, fn.nparams + 1):
        params.append(eng.read_path(State0, "_%d" % i, fn.types["_%d" % i]))
    return fn, eng, out, params


class _S0:
    store = {}


State0 = _S0()


def vc_start_line_roundtrip(fns, variants, work):
    """For every start line 0 <= t < 2^62 and every side length: the number write_header_to prints for a side, read back by
    parse_hunk's target_line(line, count) with the printed count, is t again; and parse_hunk pairs each side's line with
    that side's count.  (That `{}` / FromStr round-trip integers is std's contract; C11b decides the number parser.)"""
    # --- parser side: summary of target_line
    fn_g, eng_g, summ, params = function_summary(fns, variants, r"^target_line$")
    if not summ or len(params) != 2:
        raise KeyError("parse_hunk::target_line(line, count)")
    line_s, count_s = params
    # --- writer side
    fn_w = find_fn(fns, r"::write_header_to$")
    shown = []

    def on_call(eng, st, bb, site, stmt, dst, callee, args, nxt):
        if re.search(r"Argument::<'_>::new_display::<(isize|usize)>$|Argument::new_display::<(isize|usize)>$", callee):
            v, _, _ = eng.operand(st, args[0])
            if isinstance(v, Ref):
                ty = "isize" if "<isize>" in callee else "usize"
                val = eng.read_path(st, v.target, ty)
                n = len([k for k in st.store if k.startswith("ghost:disp")])
                st.store["ghost:disp%d" % n] = val
        if re.search(r"Arguments::<'_>::new::<|Arguments::new::<|Arguments::<'_>::new_v1", callee):
            vals = [st.store.get("ghost:disp%d" % i) for i in range(4)]
            if all(v is not None for v in vals):
                shown.append((list(st.pc), vals))
        return None

    eng_w = Engine(fns, fn_w, variants, hooks={"on_call": on_call})
    eng_w.run()
    if not shown:
        raise KeyError("the four displayed values of write_header_to")
    hunk = eng_w.read_path(State0, "_1", fn_w.types["_1"])
    ridx = mirvc.struct_field_index("Hunk", "remove")
    aidx = mirvc.struct_field_index("Hunk", "add")
    tidx = mirvc.struct_field_index("HunkPart", "target_line")
    t_rm = eng_w.read_path(State0, "%s.%d.%d" % (hunk.target, ridx, tidx), "isize")
    t_add = eng_w.read_path(State0, "%s.%d.%d" % (hunk.target, aidx, tidx), "isize")
    found = []
    solver = z3.Solver()
    queries = 0
    t0 = __import__("time").time()
    LIM = z3.BitVecVal(2 ** 62 - 1, 64)
    for pc_w, (rl, rc, al, ac) in shown:
        for side, t, ln, cnt in (("old", t_rm, rl, rc), ("new", t_add, al, ac)):
            pre = list(pc_w) + [t >= 0, t < LIM]
            # the printed number must not be negative
            solver.push(); solver.add(*pre); solver.add(ln < 0); queries += 1
            if solver.check() == z3.sat:
                found.append({"bb": "-", "stmt": "write_header_to", "what": "%s side: a negative line number is written" % side, "model": model_values(solver.model(), ("in_",)), "trace": []})
            solver.pop()
            for pc_g, ret in summ:
                sub = [(line_s, ln), (count_s, cnt)]
                pcg = z3.substitute(pc_g, *sub)
                r = z3.substitute(ret, *sub)
                solver.push(); solver.add(*pre); solver.add(pcg); solver.add(r != t); queries += 1
                res = solver.check()
                if res == z3.sat:
                    found.append({"bb": "-", "stmt": "write_header_to -> target_line", "what": "%s side: start line %s is not preserved by write-then-parse" % (side, "t"),
                                  "model": model_values(solver.model(), ("in_",)), "trace": []})
                elif res == z3.unknown:
                    raise RuntimeError("solver unknown")
                solver.pop()
    # --- wiring in parse_hunk: target_line(header.X_line, header.X_count) feeds Hunk::new's X argument
    fn_p = find_fn(fns, r"^parse_hunk$")
    calls = []
    news = []
    names = {}
    for f in ("remove_line", "remove_count", "add_line", "add_count"):
        names[mirvc.struct_field_index("HunkHeader", f)] = f
    for bb, stmts in fn_p.blocks.items():
        for s_ in stmts:
            m = callm(s_)
            if m and re.search(r"(^|::)target_line$", m.group(2).strip()):
                idxs = []
                for a in mirvc.split_top(m.group(3)):
                    fm = re.search(r"\(_\d+\.(\d+): usize\)", a)
                    if not fm:
                        lm = re.search(r"(_\d+)", a)
                        for bb2, st2 in fn_p.blocks.items():
                            for s2 in st2:
                                dm = re.match(r"%s = (?:copy|move) \(_\d+\.(\d+): usize\)$" % re.escape(lm.group(1)), s2) if lm else None
                                if dm:
                                    fm = dm
                    idxs.append(int(fm.group(1)) if fm else -1)
                calls.append((m.group(1), [names.get(i, "?") for i in idxs]))
            if m and re.search(r"Hunk::<.*>::new$|Hunk::new$", mirvc_strip(m.group(2))):
                news.append(mirvc.split_top(m.group(3)))
    wiring_ok = (len(calls) == 2 and len(news) == 1 and calls[0][1] == ["remove_line", "remove_count"] and calls[1][1] == ["add_line", "add_count"]
                 and re.search(r"\b%s\b" % re.escape(calls[0][0] or "?"), news[0][0] or "") and re.search(r"\b%s\b" % re.escape(calls[1][0] or "?"), news[0][1] or ""))
    if not wiring_ok:
        found.append({"bb": "-", "stmt": "parse_hunk", "what": "parse_hunk does not pass each side's (line, count) pair to target_line and on to Hunk::new: %s -> %s" % (calls, news), "model": {}, "trace": []})
    r = {"queries": queries, "states": eng_w.states + eng_g.states, "paths": len(shown), "solver_s": round(__import__("time").time() - t0, 3), "blocks": len(fn_w.blocks),
         "unroll": mirvc.UNROLL, "function": "write_header_to + parse_hunk::target_line", "writer_paths_checked": len(shown), "parser_paths_checked": len(summ),
         "verdict": "violation" if found else "holds"}
    if found:
        r["candidates"] = found[:6]
    if len(shown) < 4 or len(summ) < 2:
        r["verdict"], r["reason"] = "inconclusive", "vacuity witness failed: fewer paths than the two-by-two empty/non-empty cases"
    return r


def mirvc_strip(c):
    return strip_generics(c.strip()) if False else c.strip()


# ------------------------------------------------------------------------------------------ C19 wiring
def vc_parse_patch_refuses_unsafe(fns, variants, work):
    """parse_patch: a file patch is pushed to the result only after strip() and after unsafe_filename() returned None;
    and an Ok return happens only on such paths."""
    fn = find_fn(fns, r"^parse_patch$")
    found, pushes = [], [0]

    def after_call(eng, st, bb, site, stmt, dst, callee, args, argv):
        c = strip_generics(callee)
        if c.endswith("FilePatch::strip"):
            st.ghost = (st.ghost - {"checked"}) | {"strip"}
            st.store.pop("ghost:unsafe_disc", None)
        elif c.endswith("FilePatch::unsafe_filename") and dst:
            dpath, _ = eng.resolve(st, dst)
            st.store["ghost:unsafe_disc"] = eng.read_path(st, dpath + "#disc", "isize")
            if "strip" in st.ghost:
                st.ghost = st.ghost | {"checked"}
        elif re.search(r"Result<.*> as Try>::branch$|parse_filepatch$", c) and "parse_filepatch" in c:
            st.ghost = st.ghost - {"strip", "checked"}

    def on_call(eng, st, bb, site, stmt, dst, callee, args, nxt):
        c = strip_generics(callee)
        if c.endswith("parse_filepatch"):
            st.ghost = st.ghost - {"strip", "checked"}
            st.store.pop("ghost:unsafe_disc", None)
        if re.search(r"Vec::push$", c) and "FilePatch" in callee:
            pushes[0] += 1
            if "strip" not in st.ghost or "checked" not in st.ghost:
                found.append({"bb": bb, "stmt": stmt[:160], "what": "a file patch is added to the result without strip + unsafe-name check", "model": {}, "trace": list(st.trace[-20:])})
            else:
                d = st.store.get("ghost:unsafe_disc")
                ok, model = eng.feasible(st, [d != 0])
                eng.record_query("%s push of unsafe" % bb, list(st.pc) + [d != 0])
                if ok:
                    found.append({"bb": bb, "stmt": stmt[:160], "what": "a file patch whose name check fired is still added to the result", "model": {}, "trace": list(st.trace[-20:])})
        return None

    eng = Engine(fns, fn, variants, hooks={"on_call": on_call, "after_call": after_call})
    seeds = set()
    for bb, stmts in fn.blocks.items():
        for s_ in stmts:
            m = callm(s_)
            if m and strip_generics(m.group(2)).strip().endswith("FilePatch::unsafe_filename") and m.group(1):
                seeds.add(m.group(1))
    if not seeds:
        raise KeyError("call of FilePatch::unsafe_filename in parse_patch")
    eng.seeds = seeds
    eng.run()
    return summarize(eng, found, {"push_sites_reached": pushes[0]}, work, "c19w", witness_ok=pushes[0] > 0, witness_note="no push of a file patch reached")


# ------------------------------------------------------------------------------------------ C17 (more)
def vc_goal_refused(fns, variants, work):
    """cmd_push: a named goal that is unknown, or that is already applied (its index lies before first_patch), never reaches
    the slicing of the series: it is refused with Err."""
    fn = find_fn(fns, r"^cmd_push$")
    found, reached = [], [0]

    def after_call(eng, st, bb, site, stmt, dst, callee, args, argv):
        if re.search(r"as Iterator>::position::<", callee) and dst:
            dpath, _ = eng.resolve(st, dst)
            st.store["ghost:posdisc"] = st.store.get(dpath + "#disc")
            st.store["ghost:pos"] = st.store.get(dpath + "@Some.0")

    def on_call(eng, st, bb, site, stmt, dst, callee, args, nxt):
        if re.search(mirvc.INDEX_PAT, callee) and "Range<usize>" in callee and st.store.get("ghost:pos") is not None and "driver" not in st.ghost:
            reached[0] += 1
            _, rp, _ = eng.operand(st, args[1])
            start = eng.read_path(st, rp + ".0", "usize")
            pos, pd = st.store["ghost:pos"], st.store["ghost:posdisc"]
            for cond, what in ((pd != 1, "a goal that is not in the series reaches the slicing of the series"),
                               (z3.And(pd == 1, z3.ULT(pos, start)), "a goal that is already applied is not refused")):
                ok, model = eng.feasible(st, [cond])
                eng.record_query("%s goal" % bb, list(st.pc) + [cond])
                if ok:
                    found.append({"bb": bb, "stmt": stmt[:160], "what": what, "model": model_values(model, ("c_", "in_")), "trace": list(st.trace[-20:])})
        if re.search(DRIVER_PAT, callee):
            st.ghost = st.ghost | {"driver"}
        return None

    # every Ok return with a NAMED goal (before the driver ran) has looked the goal up and found it at or behind first_patch:
    # no shortcut ("nothing to do") may answer a named goal without validating it
    # the goal is a local built from the command line (PushGoal::All / Count / UpTo); the one every variant is assigned to
    goal_locals = [k for k, t in fn.types.items() if re.fullmatch(r"_\d+", k) and t.strip().endswith("PushGoal")]
    goal_param = [g for g in goal_locals if sum(1 for stmts in fn.blocks.values() for s_ in stmts if re.match(r"%s = " % g, s_)) >= 2] or goal_locals
    UPTO = variants.get("UpTo")
    rets = [0]

    def on_stmt(eng, st, bb, s):
        if re.match(r"_0 = Result::<bool, .*>::Ok\(", s) and "driver" not in st.ghost and goal_param and UPTO is not None:
            rets[0] += 1
            gd = st.store.get(goal_param[0] + "#disc")
            if gd is None:
                gd = eng.read_path(st, goal_param[0] + "#disc", "isize")
            if st.store.get("ghost:pos") is None:
                ok, model = eng.feasible(st, [gd == UPTO])
                eng.record_query("%s early ok" % bb, list(st.pc) + [gd == UPTO])
                if ok:
                    found.append({"bb": bb, "stmt": s[:120], "what": "cmd_push answers Ok to a named goal without looking it up (an unknown or already applied goal is not refused)",
                                  "model": model_values(model, ("c_", "in_")), "trace": list(st.trace[-20:])})

    eng = Engine(fns, fn, variants, hooks={"on_call": on_call, "after_call": after_call, "on_stmt": on_stmt})
    eng.seeds = seeds_for(fn, False, (mirvc.INDEX_PAT,)) | set(goal_param)
    eng.run()
    return summarize(eng, found, {"slice_sites_reached_with_named_goal": reached[0], "early_ok_returns_seen": rets[0]}, work, "c17g", witness_ok=reached[0] > 0,
                     witness_note="slicing not reached on the named-goal path")


def vc_load_errors_before_workers(fns, variants, work):
    """parallel::apply_patches: a patch that failed to load or parse makes the function return Err before any worker
    (apply or save) is started."""
    fn = find_fn(fns, r"^parallel::apply_patches$")
    found, reached, loads = [], [0], [0]

    def after_call(eng, st, bb, site, stmt, dst, callee, args, argv):
        if "with_context::<" in callee and "Patch<" in callee and dst:
            dpath, _ = eng.resolve(st, dst)
            d = eng.read_path(st, dpath + "#disc", "isize")
            n = len([k for k in st.store if k.startswith("ghost:load")])
            st.store["ghost:load%d" % n] = d
            loads[0] += 1

    def on_call(eng, st, bb, site, stmt, dst, callee, args, nxt):
        if "ParallelIterator>::for_each::<" in callee:
            reached[0] += 1
            ds = [v for k, v in st.store.items() if k.startswith("ghost:load")]
            for d in ds:
                ok, model = eng.feasible(st, [d != 0])
                eng.record_query("%s workers after load error" % bb, list(st.pc) + [d != 0])
                if ok:
                    found.append({"bb": bb, "stmt": stmt[:160], "what": "workers are started although loading / parsing a patch failed",
                                  "model": {}, "trace": list(st.trace[-20:])})
                    break
        return None

    eng = Engine(fns, fn, variants, hooks={"on_call": on_call, "after_call": after_call})
    seeds = {"_0"}
    for bb, stmts in fn.blocks.items():
        for s_ in stmts:
            m = callm(s_)
            if m and "with_context::<" in m.group(2) and "Patch<" in m.group(2) and m.group(1):
                seeds.add(m.group(1))
    eng.seeds = seeds
    eng.run()
    return summarize(eng, found, {"for_each_sites_reached": reached[0], "load_results_checked": loads[0]}, work, "c17l",
                     witness_ok=reached[0] > 0 and loads[0] > 0, witness_note="worker start or load result not reached")


# ------------------------------------------------------------------------------------------ C05 (more)
def vc_rej_rollback_before_pop(fns, variants, work):
    """rollback_and_save_rej_files: every entry that is popped from applied_patches was rolled back in memory first."""
    fn = find_fn(fns, r"rollback_and_save_rej_files$")
    found, pops = [], [0]

    def on_call(eng, st, bb, site, stmt, dst, callee, args, nxt):
        c = strip_generics(callee)
        if c.endswith("]>::last") or c.endswith("::last"):
            st.ghost = st.ghost - {"rolled"}
        elif callee_is(callee, "rollback") and "ModifiedFiles" in callee:
            st.ghost = st.ghost | {"rolled"}
        elif re.search(r"Vec::pop$", c):
            pops[0] += 1
            if "rolled" not in st.ghost:
                ok, _ = eng.feasible(st)
                if ok:
                    found.append({"bb": bb, "stmt": stmt[:160], "what": "a file patch of the rejected patch is dropped without rolling it back in memory", "model": {}, "trace": list(st.trace[-20:])})
        return None

    eng = Engine(fns, fn, variants, hooks={"on_call": on_call})
    eng.seeds = {"_0", "_2"}
    eng.run()
    return summarize(eng, found, {"pop_sites_reached": pops[0]}, work, "c05p", witness_ok=pops[0] > 0, witness_note="pop not reached")


# ------------------------------------------------------------------------------------------ C15 / C18 (more)
FS_TOUCH = r"(^|[^\w])(remove_file|remove_dir|create_dir_all|create_dir|File::create|OpenOptions::open|set_permissions|File::open|rename|hard_link|copy|write)(::<|$)"


def vc_first_touch_is_unlink(fns, variants, work):
    """save_modified_file: for a file that existed, nothing touches the file system before remove_file(file_path)
    (no chmod / open / truncate of the possibly hard-linked inode)."""
    fn = find_fn(fns, r"^save_modified_file$")
    found, reached = [], [0]
    existed_idx = mirvc.struct_field_index("ModifiedFile", "existed")

    def on_call(eng, st, bb, site, stmt, dst, callee, args, nxt):
        c = strip_generics(callee)
        if re.search(r"(^|[^\w])remove_file$", c):
            st.ghost = st.ghost | {"removed"}
            reached[0] += 1
        elif re.search(FS_TOUCH, c) and "removed" not in st.ghost and not re.search(r"(^|[^\w])remove_file", c):
            file_param = [k for k, t in eng.fn.types.items() if re.fullmatch(r"_\d+", k) and int(k[1:]) <= eng.fn.nparams and "ModifiedFile" in t][0]
            ref = eng.read_path(st, file_param, eng.fn.types[file_param])
            existed = eng.read_path(st, "%s.%d" % (ref.target, existed_idx), "bool")
            ok, model = eng.feasible(st, [existed])
            eng.record_query("%s touch before unlink" % bb, list(st.pc) + [existed])
            if ok:
                found.append({"bb": bb, "stmt": stmt[:160], "what": "an existing file is touched (%s) before it is unlinked" % c[-40:], "model": {}, "trace": list(st.trace[-20:])})
        return None

    eng = Engine(fns, fn, variants, hooks={"on_call": on_call})
    file_param = [k for k, t in fn.types.items() if re.fullmatch(r"_\d+", k) and int(k[1:]) <= fn.nparams and "ModifiedFile" in t]
    eng.seeds = set(file_param)
    eng.run()
    return summarize(eng, found, {"remove_file_sites_reached": reached[0]}, work, "c15t", witness_ok=reached[0] > 0, witness_note="remove_file not reached")


def vc_save_writes_content(fns, variants, work):
    """save_modified_file: an Ok return for a file that is not deleted has created the file (File::create returned Ok) and
    called write_to on it."""
    fn = find_fn(fns, r"^save_modified_file$")
    found, rets = [], [0]
    deleted_idx = mirvc.struct_field_index("ModifiedFile", "deleted")

    def on_call(eng, st, bb, site, stmt, dst, callee, args, nxt):
        c = strip_generics(callee)
        if re.search(r"File::create$", c):
            st.ghost = st.ghost | {"created"}
        elif c.endswith("ModifiedFile::write_to") and "created" in st.ghost:
            st.ghost = st.ghost | {"written"}
        return None

    def on_return(eng, st, bb):
        d0 = st.store.get("_0#disc")
        if d0 is None:
            d0 = eng.read_path(st, "_0#disc", "isize")
        if "written" in st.ghost:
            return
        rets[0] += 1
        file_param = [k for k, t in eng.fn.types.items() if re.fullmatch(r"_\d+", k) and int(k[1:]) <= eng.fn.nparams and "ModifiedFile" in t][0]
        ref = eng.read_path(st, file_param, eng.fn.types[file_param])
        deleted = eng.read_path(st, "%s.%d" % (ref.target, deleted_idx), "bool")
        bad = [d0 == 0, z3.Not(deleted)]
        ok, model = eng.feasible(st, bad)
        eng.record_query("%s ok without write" % bb, list(st.pc) + bad)
        if ok:
            found.append({"bb": bb, "stmt": "return", "what": "save_modified_file returns Ok for a file that is not deleted without having written it", "model": {}, "trace": list(st.trace[-20:])})

    eng = Engine(fns, fn, variants, hooks={"on_call": on_call, "on_return": on_return})
    file_param = [k for k, t in fn.types.items() if re.fullmatch(r"_\d+", k) and int(k[1:]) <= fn.nparams and "ModifiedFile" in t]
    eng.seeds = set(file_param) | {"_0"}
    eng.run()
    return summarize(eng, found, {"returns_checked": rets[0]}, work, "c18s", witness_ok=rets[0] > 0, witness_note="no return without write explored")


def vc_worker_errors_checked(fns, variants, work):
    """parallel::apply_patches: Ok is returned only after the collected worker errors were looked at and there was none."""
    fn = find_fn(fns, r"^parallel::apply_patches$")
    found, rets = [], [0]

    def after_call(eng, st, bb, site, stmt, dst, callee, args, argv):
        if re.search(r"Drain<'_, failure::Error> as Iterator>::next$", callee) and dst:
            dpath, _ = eng.resolve(st, dst)
            st.store["ghost:err_disc"] = eng.read_path(st, dpath + "#disc", "isize")

    def on_return(eng, st, bb):
        d0 = st.store.get("_0#disc")
        if d0 is None:
            d0 = eng.read_path(st, "_0#disc", "isize")
        rets[0] += 1
        e = st.store.get("ghost:err_disc")
        bad = [d0 == 0] if e is None else [d0 == 0, e != 0]
        ok, model = eng.feasible(st, bad)
        eng.record_query("%s ok with worker error" % bb, list(st.pc) + bad)
        if ok:
            found.append({"bb": bb, "stmt": "return", "what": "Ok returned " + ("without looking at the workers' errors" if e is None else "although a worker reported an error"),
                          "model": {}, "trace": list(st.trace[-20:])})

    eng = Engine(fns, fn, variants, hooks={"after_call": after_call, "on_return": on_return})
    seeds = {"_0"}
    for bb, stmts in fn.blocks.items():
        for s_ in stmts:
            m = callm(s_)
            if m and re.search(r"Drain<'_, failure::Error> as Iterator>::next$", m.group(2).strip()) and m.group(1):
                seeds.add(m.group(1))
    eng.seeds = seeds
    eng.run()
    return summarize(eng, found, {"returns_checked": rets[0]}, work, "c18w", witness_ok=rets[0] > 0, witness_note="no return explored")


# ------------------------------------------------------------------------------------------ C02 / C03 / C20: bookkeeping between hunks
def vc_every_hunk_tried(fns, variants, work):
    """apply_modify in normal mode: every hunk report that is pushed is the outcome of a try_apply_hunk call made for that hunk
    (at least fuzz level 0 is always tried: the level range is 0..=min(fuzz, usable)); no hunk is written off as failed or
    skipped because an earlier one failed -- the reject file needs every failing hunk."""
    fn = find_fn(fns, r"::apply_modify$")
    found, reached = [], {"pushes": 0, "tries": 0}
    mode_param = [k for k, t in fn.types.items() if re.fullmatch(r"_\d+", k) and int(k[1:]) <= fn.nparams and "ApplyMode" in t][0]
    RB = variants["Rollback"]

    def on_call(eng, st, bb, site, stmt, dst, callee, args, nxt):
        c = callee.strip()
        if re.search(r"(^|::)try_apply_hunk$", c):
            reached["tries"] += 1
            st.ghost = st.ghost | {"tried"}
        elif re.search(r"FilePatchApplyReport::push_hunk_report$", c):
            d = z3.BitVec("in_%s#disc" % mode_param, 64)
            normal, _ = eng.feasible(st, [d != RB])
            if normal:
                reached["pushes"] += 1
                if "tried" not in st.ghost:
                    ok, model = eng.feasible(st, [d != RB])
                    eng.record_query("%s push untried" % bb, list(st.pc) + [d != RB])
                    if ok:
                        found.append({"bb": bb, "stmt": stmt[:160], "what": "a hunk's report is recorded without the hunk having been tried (a failing hunk would be missing from the reject file)",
                                      "model": model_values(model, ("in_", "c_")), "trace": list(st.trace[-14:])})
            st.ghost = st.ghost - {"tried"}
        return None

    eng = Engine(fns, fn, variants, hooks={"on_call": on_call})
    seeds = {mode_param}
    for bb, stmts in fn.blocks.items():
        for s_ in stmts:
            m = callm(s_, need_dst=True)
            if m and re.search(r"RangeInclusive", m.group(2)):
                seeds.add(m.group(1))
                seeds |= set(re.findall(r"_\d+", m.group(3)))
    eng.seeds = seeds
    eng.run()
    return summarize(eng, found, {"push_sites_reached": reached["pushes"], "try_sites_reached": reached["tries"]}, work, "c13t",
                     witness_ok=reached["pushes"] > 0 and reached["tries"] > 0, witness_note="%r" % reached)


def vc_context_counts_reset(fns, variants, work):
    """parse_hunk, one inductive step of its line loop: whatever the counters are when a line is read, after a CHANGED line (pushed
    to exactly one side) the trailing-context counter is 0; a context line (pushed to both sides) leaves exactly one of the two
    counters one higher.  (The fuzz / anchoring rules of C02 read these counters; lemma 1 of C01 asserts them for short hunks.)"""
    fn = find_fn(fns, r"^parse_hunk$")
    hunk_local = fn.debug.get("hunk") if hasattr(fn, "debug") else None
    if not hunk_local:
        m = re.search(r"debug hunk => (_\d+);", fn.text if hasattr(fn, "text") else "")
        hunk_local = m.group(1) if m else None
    if not hunk_local:
        # the local of type Hunk that is moved into the Ok tuple
        cands = [k for k, t in fn.types.items() if re.fullmatch(r"_\d+", k) and re.search(r"(^|::)Hunk<", t) and int(k[1:]) > fn.nparams]
        hunk_local = cands[0] if cands else None
    if not hunk_local:
        raise KeyError("parse_hunk: local `hunk`")
    i_suf = mirvc.struct_field_index("Hunk", "suffix_context")
    i_pre = mirvc.struct_field_index("Hunk", "prefix_context")
    found, reached = [], {"changed": 0, "context": 0}

    def end_of_iteration(eng, st, bb, where):
        n = len([g for g in st.ghost if g.startswith("push:")])
        if "iter" not in st.ghost or n == 0:
            return
        suf = eng.read_path(st, "%s.%d" % (hunk_local, i_suf), "usize")
        pre = eng.read_path(st, "%s.%d" % (hunk_local, i_pre), "usize")
        s0, p0 = st.store.get("ghost:suf0"), st.store.get("ghost:pre0")
        if n == 1:
            reached["changed"] += 1
            conds = [("after a changed line ('-' or '+') the trailing-context count is not back to 0", suf != 0)]
            if p0 is not None:
                conds.append(("a changed line alters the leading-context count", pre != p0))
        else:
            reached["context"] += 1
            conds = []
            if s0 is not None and p0 is not None:
                conds.append(("a context line does not raise exactly one of the two context counts by one",
                              z3.Not(z3.Or(z3.And(pre == p0 + 1, suf == s0), z3.And(pre == p0, suf == s0 + 1)))))
        for what, c in conds:
            ok, model = eng.feasible(st, [c])
            eng.record_query("%s %s" % (bb, what[:24]), list(st.pc) + [c])
            if ok:
                found.append({"bb": bb, "stmt": where, "what": what, "model": model_values(model, ("hv_",)), "trace": list(st.trace[-12:])})

    def on_call(eng, st, bb, site, stmt, dst, callee, args, nxt):
        c = callee.strip()
        if re.search(r"(^|::)parse_hunk_line$", c):
            end_of_iteration(eng, st, bb, "next line")
            # inductive step: arbitrary counters at the start of the iteration
            s0 = z3.BitVec("hv_suf_%s_%d" % (site, eng.states), 64)
            p0 = z3.BitVec("hv_pre_%s_%d" % (site, eng.states), 64)
            st.pc.append(z3.ULT(s0, 1 << 40)); st.pc.append(z3.ULT(p0, 1 << 40))
            st.store["%s.%d" % (hunk_local, i_suf)] = s0
            st.store["%s.%d" % (hunk_local, i_pre)] = p0
            st.store["ghost:suf0"], st.store["ghost:pre0"] = s0, p0
            st.ghost = frozenset(g for g in st.ghost if not g.startswith("push:")) | {"iter"}
        elif re.search(r"Vec::<&\[u8\]>::push$", c):
            st.ghost = st.ghost | {"push:%s" % site}
        return None

    def on_stmt(eng, st, bb, s):
        # the loop is left: the hunk is moved into the result (checked before the move, hooks run ahead of the statement)
        if re.search(r"= \(.*move %s\)" % hunk_local, s) or re.search(r"= \(.*move %s," % hunk_local, s):
            end_of_iteration(eng, st, bb, "loop exit")
            st.ghost = frozenset(g for g in st.ghost if not g.startswith("push:") and g != "iter")

    eng = Engine(fns, fn, variants, hooks={"on_call": on_call, "on_stmt": on_stmt})
    eng.seeds = {hunk_local}
    eng.run()
    return summarize(eng, found, {"changed_line_iterations_checked": reached["changed"], "context_line_iterations_checked": reached["context"]}, work, "c02x",
                     witness_ok=reached["changed"] > 1 and reached["context"] > 0, witness_note="%r" % reached)


def vc_rollback_view_recorded(fns, variants, work):
    """apply_modify in rollback mode: each hunk is undone through the view built with the direction passed in and the fuzz
    level RECORDED for that hunk in the report being rolled back (HunkApplyReport::Applied.fuzz), never the caller's fuzz
    argument (rollback() passes 0) -- a hunk that went in with fuzz has to be found again with the same trimmed view."""
    fn = find_fn(fns, r"::apply_modify$")
    found, reached = [], {"rollback_views": 0, "normal_views": 0}
    mode_param = [k for k, t in fn.types.items() if re.fullmatch(r"_\d+", k) and int(k[1:]) <= fn.nparams and "ApplyMode" in t][0]
    dir_param = [k for k, t in fn.types.items() if re.fullmatch(r"_\d+", k) and int(k[1:]) <= fn.nparams and t.strip().endswith("PatchDirection")][0]
    RB = variants["Rollback"]
    fz_idx = mirvc.variant_field_index("HunkApplyReport", "Applied", "fuzz") if hasattr(mirvc, "variant_field_index") else 4

    def on_stmt(eng, st, bb, s):
        m = re.match(r"(_\d+) = copy \(\(.* as Applied\)\.%d: usize\)$" % fz_idx, s)
        if m:
            st.ghost = frozenset(g for g in st.ghost if not g.startswith("rf:")) | {"rf:" + m.group(1)}

    def on_call(eng, st, bb, site, stmt, dst, callee, args, nxt):
        if not re.search(r"Hunk::<.*>::view$", callee):
            return None
        # the mode parameter's discriminant, by the name the engine gives a parameter's lazily materialised field
        d = z3.BitVec("in_%s#disc" % mode_param, 64)
        normal_possible, _ = eng.feasible(st, [d != RB])
        if normal_possible:
            reached["normal_views"] += 1
            return None
        reached["rollback_views"] += 1
        fz, _, _ = eng.operand(st, args[2])
        dr, dpth, _ = eng.operand(st, args[1])
        rfs = [g[3:] for g in st.ghost if g.startswith("rf:")]
        if not rfs or fz is None or not z3.is_bv(fz):
            found.append({"bb": bb, "stmt": stmt[:160], "what": "rollback builds a hunk view without reading the fuzz level recorded for that hunk", "model": {}, "trace": list(st.trace[-12:])})
            return None
        rec = st.store.get(rfs[0])
        if rec is None or not z3.is_bv(rec):
            rec = eng.read_path(st, rfs[0], "usize")
        ok, model = eng.feasible(st, [fz != rec])
        eng.record_query("%s rollback view fuzz" % bb, list(st.pc) + [fz != rec])
        if ok:
            found.append({"bb": bb, "stmt": stmt[:160], "what": "rollback undoes a hunk through a view of another fuzz level than the one recorded when it applied", "model": model_values(model, ("in_", "c_")), "trace": list(st.trace[-12:])})
        if args[1].strip() not in ("copy " + dir_param, "move " + dir_param):
            found.append({"bb": bb, "stmt": stmt[:160], "what": "rollback view is not built with the direction handed to apply_modify", "model": {}, "trace": []})
        return None

    eng = Engine(fns, fn, variants, hooks={"on_call": on_call, "on_stmt": on_stmt})
    seeds = {mode_param, dir_param}
    for bb, stmts in fn.blocks.items():
        for s_ in stmts:
            m = re.match(r"(_\d+) = copy \(\(.* as Applied\)\.%d: usize\)$" % fz_idx, s_)
            if m:
                seeds.add(m.group(1))
            m = callm(s_)
            if m and re.search(r"Hunk::<.*>::view$", m.group(2)):
                seeds |= set(re.findall(r"_\d+", m.group(3)))
    eng.seeds = seeds
    eng.run()
    return summarize(eng, found, {"rollback_view_sites_reached": reached["rollback_views"], "normal_view_sites_reached": reached["normal_views"]}, work, "c04f",
                     witness_ok=reached["rollback_views"] > 0 and reached["normal_views"] > 0, witness_note="expected view calls in both modes: %r" % reached)


def vc_apply_bookkeeping(fns, variants, work):
    """apply_modify (normal mode): the `last_hunk_offset` and `last_frozen_line` handed to try_apply_hunk for a hunk are those of
    the most recent hunk that was reported applied -- offset = its report's offset, frozen line = its line + |trimmed old side|
    - trimmed suffix context of the very view that matched -- and (0, -1) before the first applied hunk; whatever fuzz level
    is being tried.  HunkView accessors are uninterpreted pure functions of the view."""
    fn = find_fn(fns, r"::apply_modify$")
    found, calls = [], [0]
    A = variants["Applied"]

    def view_base(eng, st, operand_s):
        v, _, _ = eng.operand(st, operand_s)
        if isinstance(v, Ref):
            tv = st.store.get(v.target)
            return tv.base if isinstance(tv, Agg) else v.target
        return None

    def uf(eng, name, base, rty):
        key = ("uf", "uf_%s(%s)" % (name, base))
        if key not in eng.lazy:
            eng.lazy[key] = eng.fresh_for_type(key[1], rty)
        return eng.lazy[key]

    def on_call(eng, st, bb, site, stmt, dst, callee, args, nxt):
        if not re.search(r"(^|::)try_apply_hunk$", callee.strip()) or len(args) < 6:
            return None
        off, _, _ = eng.operand(st, args[4])
        frz, _, _ = eng.operand(st, args[5])
        if off is None or frz is None or z3.is_bv_value(off) and z3.is_bv_value(frz) and "const" in args[4] and "const" in args[5]:
            return None       # the rollback-mode call passes constants
        calls[0] += 1
        exp_off, exp_frz = z3.BitVecVal(0, 64), z3.BitVecVal(-1, 64)
        n = len([k for k in st.store if k.startswith("ghost:tah_disc")])
        for k in range(n):
            d = st.store["ghost:tah_disc%d" % k]
            exp_off = z3.If(d == A, st.store["ghost:tah_off%d" % k], exp_off)
            exp_frz = z3.If(d == A, st.store["ghost:tah_frz%d" % k], exp_frz)
        for got, want, what in ((off, exp_off, "previous hunk's offset"), (frz, exp_frz, "frozen line (line + |trimmed old side| - trimmed suffix context of the applied view)")):
            ok, model = eng.feasible(st, [got != want])
            eng.record_query("%s %s" % (bb, what[:30]), list(st.pc) + [got != want])
            if ok:
                found.append({"bb": bb, "stmt": stmt[:120], "what": "try_apply_hunk is not given the %s" % what, "model": model_values(model, ("uf_", "c_")), "trace": list(st.trace[-12:])})
        st.store["ghost:pending_view"] = Ref(view_base(eng, st, args[0]) or "?")
        return None

    def after_call(eng, st, bb, site, stmt, dst, callee, args, argv):
        if re.search(r"(^|::)try_apply_hunk$", callee.strip()) and dst and "ghost:pending_view" in st.store:
            dpath, _ = eng.resolve(st, dst)
            base = st.store.pop("ghost:pending_view").target
            n = len([k for k in st.store if k.startswith("ghost:tah_disc")])
            line = eng.read_path(st, dpath + "@Applied.0", "isize")
            st.store["ghost:tah_disc%d" % n] = eng.read_path(st, dpath + "#disc", "isize")
            st.store["ghost:tah_off%d" % n] = eng.read_path(st, dpath + "@Applied.2", "isize")
            rc = uf(eng, "HunkView_remove_content", base, "&[&[u8]]")
            ln = eng.obj_len(st, rc.target)
            suf = uf(eng, "HunkView_suffix_context", base, "usize")
            st.store["ghost:tah_frz%d" % n] = line + ln - suf

    eng = Engine(fns, fn, variants, hooks={"on_call": on_call, "after_call": after_call}, unroll=3)
    eng.pure_calls = [(r"HunkView::remove_content$", "&[&[u8]]"), (r"HunkView::suffix_context$", "usize"), (r"HunkView::prefix_context$", "usize"),
                      (r"HunkView::add_content$", "&[&[u8]]")]
    seeds = set()
    for bb, stmts in fn.blocks.items():
        for s_ in stmts:
            m = callm(s_)
            if m and re.search(r"(^|::)try_apply_hunk$", m.group(2).strip()):
                a = mirvc.split_top(m.group(3))
                seeds |= set(re.findall(r"_\d+", a[0] + " " + a[4] + " " + a[5]))
                if m.group(1):
                    seeds.add(m.group(1))
    eng.seeds = seeds
    eng.extra_modelled = r"HunkView::(remove_content|suffix_context|prefix_context|add_content)$|(^|::)try_apply_hunk$"
    eng.run()
    return summarize(eng, found, {"try_apply_hunk_call_sites_checked": calls[0]}, work, "c02b", witness_ok=calls[0] >= 3,
                     witness_note="fewer than three successive calls explored")
