"""C15 — files are replaced, never edited in place (ordering lemma on save_modified_file; DESIGN.md §2 C15)."""
from .. import mirvc
from . import _mir


def replay_candidate(v, work, log):
    from .. import scenarios
    return scenarios.replay_for("C15", v, work, log)


def spec(tier, seed):
    from ..kani import Instance
    # the lemma rests on `existed` recording the on-disk state: no patch operation (rename via move_out / move_in) may change it
    inst = [Instance("c15_rename_b%d" % st, "patch", "rename_case(%d)" % st, unwind=12, unwindset={"memcmp.0": 3}, features=False, mem_gb=4, timeout_s=600,
                     sub="C15: rename (move_out / move_in / undo) never changes a file's `existed` flag", params=dict(target_state=["absent", "exists empty", "exists non-empty"][st]))
            for st in (0, 1, 2)]
    return {
        "instances": inst,
        "mir_vcs": [{"name": "save_modified_file: remove_file precedes File::create for files that existed", "function": "save_modified_file",
                     "target": "bin", "run": lambda fns, variants, work: _mir.vc_replace_not_edit(fns, variants, work)},
                    {"name": "save_modified_file: nothing touches an existing file before it is unlinked", "function": "save_modified_file",
                     "target": "bin", "run": lambda fns, variants, work: _mir.vc_first_touch_is_unlink(fns, variants, work)}],
        "level": "other",
        "engine": "mirvc: symbolic execution of the MIR of apply/common.rs::save_modified_file; z3, cross-checked with cvc5",
        "functions": ["common::save_modified_file (MIR)", "ModifiedFile::move_out / move_in / restore_renamed_over (Kani)"],
        "symbolic": "file.existed, file.deleted, the Result of remove_file and the ErrorKind comparison",
        "bounds": {"loop_unrolling": mirvc.UNROLL, "note": "the function is loop-free"},
        "assumptions": ["ghost flag set at the remove_file call; ErrorKind equality modelled as discriminant equality"],
        "outside": ["inode identity itself; that files no patch names are never opened (needs the whole run)", "the mmap loader"],
        "explanation": "on every path reaching File::create(file_path) with file.existed, remove_file(&file_path) was called before and either succeeded or failed with NotFound",
        "rule": "one evaluation = one solver query; non-trivial = File::create site decided under both orderings",
    }
