"""C15 — files are replaced, never edited in place (ordering lemma on save_modified_file; DESIGN.md §2 C15)."""
from .. import mirvc
from . import _mir


def spec(tier, seed):
    return {
        "instances": [],
        "mir_vcs": [{"name": "save_modified_file: remove_file precedes File::create for files that existed", "function": "save_modified_file",
                     "target": "bin", "run": lambda fns, variants, work: _mir.vc_replace_not_edit(fns, variants, work)}],
        "level": "other",
        "engine": "mirvc: symbolic execution of the MIR of apply/common.rs::save_modified_file; z3, cross-checked with cvc5",
        "functions": ["common::save_modified_file (MIR)"],
        "symbolic": "file.existed, file.deleted, the Result of remove_file and the ErrorKind comparison",
        "bounds": {"loop_unrolling": mirvc.UNROLL, "note": "the function is loop-free"},
        "assumptions": ["ghost flag set at the remove_file call; ErrorKind equality modelled as discriminant equality"],
        "outside": ["inode identity itself; that files no patch names are never opened (needs the whole run)", "the mmap loader"],
        "explanation": "on every path reaching File::create(file_path) with file.existed, remove_file(&file_path) was called before and either succeeded or failed with NotFound",
        "rule": "one evaluation = one solver query; non-trivial = File::create site decided under both orderings",
    }
