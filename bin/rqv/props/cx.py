"""Scratch property for timing experiments: instances from $CX (python expression; names from the props modules in scope)."""
import os
from ._apply import apply_inst
from .c19 import strip_inst
from ..kani import Instance
from . import writer_loops, FROM_UTF8_STUB


def spec(tier, seed):
    items = eval(os.environ.get("CX", "[]"))
    inst = [i if isinstance(i, Instance) else apply_inst(*i[0], **i[1]) for i in items]
    return {"instances": inst, "level": "model_checking"}
