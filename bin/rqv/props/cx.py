"""Scratch property for timing experiments: instances from $CX (python expression list of apply_inst arg tuples)."""
import os
from ._apply import apply_inst


def spec(tier, seed):
    items = eval(os.environ.get("CX", "[]"))
    inst = [apply_inst(*a, **k) for a, k in items]
    return {"instances": inst, "level": "model_checking"}
