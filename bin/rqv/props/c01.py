"""C01 — diff(A,B) pushed on A gives B, -R gives A: decided as a chain of lemmas (DESIGN.md §2 C01)."""
from ..kani import Instance
from ._apply import apply_inst
from . import rotate, FROM_UTF8_STUB
from .c11 import bytes_lit

# lemma 1 instances: (ops, old_start, new_start, no_nl_old_last, no_nl_new_last)
HUNK_TEXTS = [
    (" -+ ", 2, 2, False, False), ("-+", 1, 1, False, False), ("+", 3, 4, False, False), ("-", 4, 3, False, False),
    (" +", 1, 1, False, False), ("- ", 1, 1, False, False), ("  -", 1, 1, False, False), ("+  ", 1, 1, False, False),
    (" -+", 2, 2, True, True), ("-+", 1, 1, True, False), ("-+", 1, 1, False, True), (" +", 5, 5, False, True),
    ("+", 0, 1, False, False), ("-", 1, 0, False, False), ("++", 0, 1, False, True), ("--", 1, 0, True, False),
    ("+", 7, 8, False, False), ("-", 8, 7, False, False), (" - + ", 3, 3, False, False), ("   ", 2, 2, False, False),
    # a change group that is a pure addition after inner context: the context counts must restart at every change line
    ("- +", 1, 1, False, False), ("+ -", 1, 1, False, False),
]
CONTEXT_RESET = [("- +", 1, 1, False, False), ("+ -", 1, 1, False, False)]
DIALECTS = [
    ("plain", b"--- a/f\n+++ b/f\n@@ -1 +1 @@\n-x\n+y\n", 1, 0, b"f", b"f", False, 1, 1),
    ("timestamps", b"--- a/f\t2019-01-16 15:02:37.016021405 +0100\n+++ b/f\t2019-01-16 15:03:08.724512747 +0100\n@@ -1 +1 @@\n-x\n+y\n", 1, 0, b"f", b"f", False, 1, 1),
    ("git", b"diff --git a/f b/f\nindex 1234567..89abcde 100644\n--- a/f\n+++ b/f\n@@ -1 +1 @@\n-x\n+y\n", 1, 0, b"f", b"f", False, 1, 1),
    ("create_devnull", b"--- /dev/null\n+++ b/f\n@@ -0,0 +1 @@\n+y\n", 1, 1, b"", b"f", False, 1, 1),
    ("delete_devnull", b"--- a/f\n+++ /dev/null\n@@ -1 +0,0 @@\n-x\n", 1, 2, b"f", b"", False, 1, 1),
    ("orig_names", b"--- a/f.orig\n+++ b/f\n@@ -1 +1 @@\n-x\n+y\n", 1, 0, b"f.orig", b"f", False, 1, 1),
    ("quoted", b"--- \"a/f\\040g\"\n+++ \"b/f g\"\n@@ -1 +1 @@\n-x\n+y\n", 1, 0, b"f g", b"f g", False, 1, 1),
    ("git_rename", b"diff --git a/f b/g\nsimilarity index 90%\nrename from f\nrename to g\n--- a/f\n+++ b/g\n@@ -1 +1 @@\n-x\n+y\n", 1, 0, b"f", b"g", True, 1, 1),
    ("git_new_file", b"diff --git a/f b/f\nnew file mode 100644\nindex 0000000..1234567\n--- /dev/null\n+++ b/f\n@@ -0,0 +1 @@\n+y\n", 1, 1, b"", b"f", False, 1, 1),
    ("strip2", b"--- a/b/f\n+++ a/b/f\n@@ -1 +1 @@\n-x\n+y\n", 2, 0, b"f", b"f", False, 1, 1),
    ("strip0", b"--- a/b/f\n+++ a/b/f\n@@ -1 +1 @@\n-x\n+y\n", 0, 0, b"a/b/f", b"a/b/f", False, 1, 1),
    ("garbage_before", b"some text\nIndex: f\n====\n--- a/f\n+++ b/f\n@@ -1 +1 @@\n-x\n+y\n", 1, 0, b"f", b"f", False, 1, 1),
    ("two_files", b"--- a/f\n+++ b/f\n@@ -1 +1 @@\n-x\n+y\n--- a/g\n+++ b/g\n@@ -1 +1 @@\n-x\n+y\n", 1, 0, b"f", b"f", False, 1, 2),
    ("two_hunks", b"--- a/f\n+++ b/f\n@@ -1 +1 @@\n-x\n+y\n@@ -5 +5 @@\n-x\n+y\n", 1, 0, b"f", b"f", False, 2, 1),
]


def hunk_text_inst(ops, o, n, a, b):
    k = len(ops)
    size = 16 + 3 * k + 28 * (int(a) + int(b)) + 2
    name = "c01l1_%s_o%dn%d%s%s" % (ops.replace(" ", "c").replace("-", "m").replace("+", "p"), o, n, "_nnlo" if a else "", "_nnln" if b else "")
    arr = ", ".join("b'%s'" % c for c in ops)
    call = "t_hunk_text::<%d, %d>([%s], %d, %d, %s, %s)" % (size, k, arr, o, n, str(a).lower(), str(b).lower())
    return Instance(name, "parser", call, unwind=max(size, 30) + 2, unwindset={"memcmp.0": 6}, stubs=[FROM_UTF8_STUB], mem_gb=9 if k <= 2 else 20, timeout_s=1800,
                    unwind_fns={"libpatch::patch::unified::parser::parse_hunk.0": k + 2, "memchr::memchr.0": 31},
                    sub="C01 lemma 1: hunk text -> Hunk", must_cover=["hunk text parsed"], sweep=("parser", "replay_sweep_hunk_text"),
                    params=dict(edit_script=ops, old_start=o, new_start=n, no_newline_old_last=a, no_newline_new_last=b))


def spec(tier, seed):
    q = tier == "quick"
    inst = []
    # lemma 1
    short = [t for t in HUNK_TEXTS if len(t[0]) <= 2]
    two_line = [t for t in short if len(t[0]) == 2]
    texts = HUNK_TEXTS if not q else [t for t in short if t[0] in ("+", "-")][:6] + rotate(two_line, seed, 3)
    # (the three-line context-reset texts need > 9 GB: thorough tier only)
    seen = set()
    for t in texts:
        if t in seen:
            continue
        seen.add(t)
        inst.append(hunk_text_inst(*t))
    # lemma 2 / 4: dialects (concrete end-to-end through parse_filepatch).  Measured: the nom parser over a whole concrete file
    # patch exceeds 10-16 GB (c19 refusals, c12 file headers, these), so none runs in the quick tier; the thorough tier tries
    # three of them with a 30 GB cap and reports them as undecided if they do not fit.
    for (nm, text, strip, kind, old, new, ren, nh, nf) in ([] if q else [DIALECTS[0], DIALECTS[2], DIALECTS[3]]):
        call = "t_dialect(%s, %d, %d, %s, %s, %s, %d, %d)" % (bytes_lit(text), strip, kind, bytes_lit(old), bytes_lit(new), str(ren).lower(), nh, nf)
        inst.append(Instance("c01l2_%s" % nm, "parser", call, unwind=max(len(text), 60) + 4, unwindset={"memcmp.0": 20}, stubs=[FROM_UTF8_STUB],
                             mem_gb=30, timeout_s=3000, sub="C01 lemma 2/4: header dialect end to end (concrete)", must_cover=["dialect parsed"],
                             params=dict(dialect=nm, strip=strip)))
    for L, qd in ((4, False), (4, True)) if q else ((3, False), (5, False), (3, True), (5, True)):
        inst.append(Instance("c01l2_filename_%d_%s" % (L, "quoted" if qd else "plain"), "parser", "t_filename_value::<%d>(%s)" % (L, str(qd).lower()),
                             unwind=20, unwindset={"memcmp.0": 12}, mem_gb=6, timeout_s=1200, sub="C01 lemma 2: parse_filename bytes in = bytes out",
                             params=dict(name_bytes=L, quoted=qd)))
    # line splitting
    for L in ([6] if q else [0, 1, 4, 6, 8]):
        inst.append(Instance("c01_split_%d" % L, "lines", "split_lines::<%d>(%d)" % (max(L, 1), L), unwind=L + 3, mem_gb=4, timeout_s=900,
                             sub="C01: split_lines_with_endings", params=dict(bytes=L)))
    # lemma 3: Hunks -> content, exact diff, both directions, then back
    one = []
    for sh in ((1, 1, 1, 1), (3, 1, 1, 3), (0, 1, 1, 0), (0, 0, 1, 0), (0, 1, 0, 0), (2, 1, 2, 1), (1, 2, 0, 2), (0, 0, 2, 1), (1, 1, 0, 0), (3, 0, 1, 0)):
        for d in ("fwd", "rev"):
            side = sh[0] + (sh[1] if d == "fwd" else sh[2]) + sh[3]
            for n in (6,):
                # what a diff tool emits: less leading than trailing context only at the start of the file,
                # less trailing than leading context only at its end
                if sh[0] < sh[3]:
                    ls_ = [0]
                elif sh[3] < sh[0]:
                    ls_ = [n - side]
                else:
                    ls_ = sorted(set([0, 1, n - side]))
                for l in ls_:
                    if l >= 0 and l + side <= n:
                        one.append((n, [sh], [l], 0, d))
    two = [(5, [(0, 1, 1, 1), (1, 1, 0, 0)], [0, 3], 0, "fwd"), (4, [(0, 1, 0, 0), (0, 0, 1, 0)], [0, 3], 0, "fwd"),
           (5, [(1, 1, 1, 1), (1, 1, 1, 1)], [0, 2], 0, "fwd")]
    ch1 = rotate(one, seed, 5) if q else one
    ch2 = [] if q else two     # two hunks with exact+recon+back exceed 14 GB (measured): thorough tier, 30 GB cap
    for (n, sh, ls, f, d) in ch1:
        inst.append(apply_inst("c01l3", n, sh, ls, f, d, ["exact", "recon", "back"], "C01 lemma 3: exact diff applies at offset 0 fuzz 0, gives B; reversed gives A", mem_gb=8))
    for (n, sh, ls, f, d) in ch2:
        inst.append(apply_inst("c01l3", n, sh, ls, f, d, ["exact", "recon", "back"], "C01 lemma 3: two hunks", mem_gb=30, timeout=3000))
    for kc in (True, False):
        for dn in (True, False):
            inst.append(Instance("c01l3_%s_%s" % ("create" if kc else "delete", "devnull" if dn else "named"), "patch",
                                 "cd_exact(%s, %s)" % (str(kc).lower(), str(dn).lower()), unwind=6, unwindset={"memcmp.0": 3}, features=True, cap=4,
                                 mem_gb=4, timeout_s=900, sub="C01 lemma 3: create / delete kinds", params=dict(kind="create" if kc else "delete", absent_side_is_devnull=dn)))
    from . import _mir
    return {
        "instances": inst,
        # lemma 3 for several hunks rests on the hand-over between hunks (two-hunk instances do not fit the quick tier)
        "mir_vcs": [{"name": "apply_modify: offset and frozen line handed from one hunk to the next", "function": "apply_modify", "target": "lib",
                     "run": lambda f, v, w: _mir.vc_apply_bookkeeping(f, v, w)},
                    {"name": "parse_hunk: the context counters restart at every changed line (one inductive step of the line loop)", "function": "parse_hunk", "target": "lib",
                     "run": lambda f, v, w: _mir.vc_context_counts_reset(f, v, w)}],
        "level": "model_checking",
        "functions": ["parse_hunk", "parse_hunk_header", "parse_hunk_line", "parse_patch", "parse_filepatch", "FilePatchMetadata::recognize_kind / build_filepatch",
                      "parse_filename", "FilePatch::strip", "TextFilePatch::apply (apply_modify / apply_create / apply_delete)", "try_apply_hunk", "split_lines_with_endings"],
        "symbolic": "lemma 1: every line byte of the hunk text (layout concrete); lemma 2: file-name bytes; lemma 3: every line byte of A and of the hunks (A is assembled from the hunks' own old sides by assumption); line splitting: every input byte",
        "bounds": {"hunk_text_lines": "<= 5", "file_lines_A": "<= 6", "hunks": "<= 2", "context_width": "<= 3", "line_length": "1 byte + terminator"},
        "assumptions": [
            "composition: a diff is (header dialect) x (hunk texts); lemma 1 shows each hunk text parses to exactly its edit script and start lines, lemma 2/4 shows each accepted header dialect yields the right kind/names and wires the hunks through, lemma 3 shows such Hunks applied to A give B at offset 0 / fuzz 0 and reversed give A",
            "from_utf8 stub (asserts ASCII), memchr stand-in; VVec stand-in for lemma 3; replay on the real containers",
            "B is constructed (the reference), not computed by a diff tool",
        ],
        "outside": ["lemma 2/4 in the quick tier: header dialect -> kind / names / wiring of the hunks (the nom parser over a whole file patch exceeds 10-16 GB even on concrete text; "
                    "the thorough tier attempts three dialects under a 30 GB cap); the sub-parsers themselves are C11's subject", "bytes on disk after save (I/O)", "hunk texts longer than 5 lines, more than two hunks per file", "git binary patches (refused)"],
        "explanation": "chain of solver-decided lemmas from diff text to patched content, each interface asserted in full",
    }


def replay_candidate(v, work, log):
    from .. import replay
    if "parse_hunk" in (v.get("name") or ""):
        return replay.replay_by_sweep("C01", v, work, log, module="parser", testname="replay_sweep_hunk_text")
    return replay.replay_by_sweep("C01", v, work, log)


FALLBACK_SWEEP = ("patch", "replay_sweep_multi_hunk")
