"""C07 — file names related through any patch share a worker (DESIGN.md §2 C07)."""
from ..kani import Instance
from . import rotate


def calls(n):
    out = []
    for a in range(n):
        out.append((a, None))
        for b in range(n):
            if a != b:
                out.append((a, b))
    return out


def canonical(seq):
    """True if names appear in order of first appearance (renaming symmetry)."""
    nxt = 0
    for a, b in seq:
        for x in (a, b):
            if x is None:
                continue
            if x > nxt:
                return False
            if x == nxt:
                nxt += 1
    return True


def prefixes(n, length):
    seqs = [[]]
    for _ in range(length):
        seqs = [s + [c] for s in seqs for c in calls(n)]
    return [s for s in seqs if canonical(s)]


def inst(n, pre):
    nm = "c07_n%d_" % n + ("_".join("%d%s" % (a, "x" if b is None else str(b)) for a, b in pre) or "empty")
    arr = ", ".join("(%d, %s)" % (a, "None" if b is None else "Some(%d)" % b) for a, b in pre)
    call = "dist_last(%d, &[%s])" % (n, arr)
    return Instance(nm, "parallel", call, unwind=10, unwindset={"memcmp.0": 3}, features=True, target="bin", mem_gb=6, timeout_s=900,
                    sub="C07 concrete prefix + one symbolic add + symbolic thread count", must_cover=["symbolic relation with several workers"],
                    params=dict(names=n, prefix=[[a, b] for a, b in pre], symbolic="last call (a, None|Some(b)), thread_count in [1,16]"))


def spec(tier, seed):
    insts = [Instance("c07_twin", "parallel", "dist_twin()", unwind=10, features=True, target="bin", mem_gb=4, timeout_s=600,
                      expect_fail=True, sub="vacuity twin", params={})]
    # inductive step from an arbitrary valid union-find state (covers call histories of any length over N names)
    for n in ((5,) if tier == "quick" else (4, 5, 6, 7)):
        insts.append(Instance("c07_state_build_n%d" % n, "parallel", "dist_state_build::<%d>()" % n, unwind=max(10, n + 3), features=True, target="bin", mem_gb=8, timeout_s=1200,
                              sub="C07 build() from an arbitrary valid state", must_cover=["parent chain of depth 3"],
                              params=dict(names=n, symbolic="parent array under cc[i] <= i; thread_count in [1,16]")))
    for n, regs in (((5, (3, 5)),) if tier == "quick" else ((4, (2, 3, 4)), (5, (3, 4, 5)), (6, (4, 5, 6)))):
        for reg in regs:
            insts.append(Instance("c07_state_add_n%d_r%d" % (n, reg), "parallel", "dist_state_add::<%d>(%d)" % (n, reg), unwind=max(10, n + 3), features=True, target="bin", mem_gb=8,
                                  timeout_s=1200, sub="C07 add() from an arbitrary valid state keeps the invariant and merges exactly two components",
                                  must_cover=["two different components merged"],
                                  params=dict(names=n, registered=reg, symbolic="parent array under cc[i] <= i; the call (a, None|Some(b)), new names in order of appearance")))
    p32 = prefixes(3, 2)
    if tier == "quick":
        # always include the historically failing shape (A,B),(C,B) and its mirror
        base = [[(0, 1), (2, 1)], [(0, 1), (1, 2)], [(0, 1), (2, 0)], [(0, None), (1, 0)]]
        chosen = base + [p for p in rotate(p32, seed, 8) if p not in base]
        for p in chosen[:6]:
            insts.append(inst(3, p))
    else:
        for p in prefixes(3, 1) + p32 + prefixes(3, 3):
            insts.append(inst(3, p))
        for p in prefixes(4, 2):
            insts.append(inst(4, p))
    from . import _mir
    return {
        "mir_vcs": [{"name": "parallel::apply_patches: every file patch taken from a patch is handed to FilenameDistributor::add before the next one / before build()", "function": "parallel::apply_patches", "target": "bin",
                     "run": lambda f, v, w: _mir.vc_every_file_patch_registered(f, v, w)}],
        "instances": insts,
        "level": "model_checking",
        "functions": ["FilenameDistributor::<u8>::new", "FilenameDistributor::add", "FilenameDistributor::build", "parallel::apply_patches (MIR: the loop feeding the distributor)"],
        "symbolic": "the last add call (both names, rename or not) and thread_count in [1,16]; the prefix of earlier calls is enumerated up to renaming symmetry",
        "bounds": {"names": "3 (quick), 3-4 (thorough)", "calls": "3 (quick), up to 4 (thorough)", "instantiation": "T = u8"},
        "assumptions": [
            "std HashMap replaced by a fixed-array association list (overlay feature verif_containers): hashbrown's group probing does not get through symbolic execution; replay runs on the real HashMap",
            "the dispatch in apply_patches indexes the map by old-or-new name: covered by asserting that both names of every related pair agree",
            "Some(b) with b == a is never passed (the driver passes None when old and new name are equal)",
        ],
        "outside": ["more than 4 names / 4 calls", "the set of files each worker actually loads (I/O)"],
        "explanation": "for every concrete prefix of add calls (up to renaming) the solver decides the last call and the thread count: names related in a reference union-find get one worker id, every id < thread_count",
    }


def replay_candidate(v, work, log):
    from .. import scenarios
    return scenarios.replay_for("C07", v, work, log)
