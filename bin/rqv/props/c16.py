"""C16 — per-patch options and file-name resolution (DESIGN.md §2 C16): strip semantics (Kani) and the old-if-exists-else-new decision (MIR)."""
from .. import mirvc
from . import _mir
from .c19 import strip_inst


def spec(tier, seed):
    q = tier == "quick"
    inst = []
    for (L, st, ow) in ([(3, 1, True), (3, 2, False), (3, 0, False)] if q else [(L, st, ow) for L in (3, 4) for st in (0, 1, 2, 3) for ow in (False, True)]):
        inst.append(strip_inst("c16", L, st, ow, "C16 strip drops exactly N leading components of both names"))
    return {
        "instances": inst,
        "mir_vcs": [{"name": "read_series_file: strip is N for -pN and 1 otherwise; no -R without the option", "function": "read_series_file closures", "target": "bin",
                     "run": lambda f, v, w: _mir.vc_series_defaults(f, v, w)},
                    {"name": "choose_filename_to_patch: old if it exists (memory, else disk), else new; never neither", "function": "choose_filename_to_patch", "target": "bin",
                     "run": lambda f, v, w: _mir.vc_choose_filename(f, v, w)},
                    {"name": "apply_one_file_patch: direction follows the series entry's -R", "function": "apply_one_file_patch", "target": "bin",
                     "run": lambda f, v, w: _mir.vc_direction_from_series(f, v, w)}],
        "level": "model_checking",
        "functions": ["FilePatch::strip", "cmd::read_series_file closures (MIR)", "common::choose_filename_to_patch (MIR)", "AppliedState::apply_one_file_patch (MIR)"],
        "symbolic": "file-name bytes over {a, ., /}; MIR: presence of either name, the in-memory entry (absent / deleted / present) and the result of exists()",
        "bounds": {"name_bytes": "3 (quick), <= 4 (thorough)", "strip": "0..3", "loop_unrolling": mirvc.UNROLL},
        "assumptions": ["MIR VCs: callees havoc'd except the model table (getopts' opt_str / opt_present return arbitrary values; Option::unwrap_or and the named constant are modelled)"],
        "outside": ["getopts' own parsing of the option words and the splitting of series lines", "which path changed on disk (scenario replays only)"],
        "explanation": "strip removes exactly N leading components from both names (reference: split on '/', runs of slashes once, '.' dropped except leading); "
                       "the file to patch is the old name iff it exists in memory (not deleted) or, when not loaded, on disk; otherwise the new name; the apply direction is Revert iff the series entry says -R",
    }


def replay_candidate(v, work, log):
    from .. import scenarios
    return scenarios.replay_for("C16", v, work, log)
