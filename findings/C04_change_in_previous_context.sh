#!/bin/sh
# C04 (fixed): hunk 2 changes a line that is suffix context of hunk 1.  Both apply (matched against the unmodified
# file), but rolling the file patch back matches hunk 1 against content hunk 2 changed: "Rapidquilt attempted to
# rollback a patch and that failed. This is a bug." -> panic, exit 101.  A second, failing file patch forces the rollback.
# After the fix such a hunk is rejected as misordered and the push fails cleanly (exit 1, tree untouched).
# usage: <script> <rapidquilt binary>; exits 0 if the property holds.
BIN=${1:-rapidquilt}
W=$(mktemp -d)
mkdir -p $W/patches
printf 'a\nb\nc\nd\n' > $W/f.txt
printf 'one\n' > $W/g.txt
printf 'p1.patch\n' > $W/series
cat > $W/patches/p1.patch <<'P'
--- a/f.txt
+++ b/f.txt
@@ -1,3 +1,2 @@
-a
 b
 c
@@ -2,3 +1,2 @@
 b
-c
 d
--- a/g.txt
+++ b/g.txt
@@ -1,1 +1,1 @@
-two
+three
P
$BIN push -d $W --threads 1 >/dev/null 2>&1
rc=$?
got=$(cat $W/f.txt | tr '\n' ',')
rm -rf $W
if [ "$rc" = 1 ] && [ "$got" = "a,b,c,d," ]; then exit 0; fi
echo "violation: exit=$rc content=$got"; exit 1
