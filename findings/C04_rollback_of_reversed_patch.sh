#!/bin/sh
# C04 (fixed): a series entry marked -R whose application has to be undone (another file of the same patch fails).
# The drivers passed a hard-coded PatchDirection::Forward to rollback(), so the undo ran in the wrong direction:
# "attempted to rollback a patch and that failed" -> panic, exit 101.
# usage: <script> <rapidquilt binary>; exits 0 if the property holds (exit 1, tree untouched, no crash).
BIN=${1:-rapidquilt}
for T in 1 2; do
W=$(mktemp -d)
mkdir -p $W/patches
printf 'one\ntwo-new\nthree\n' > $W/f.txt
printf 'x\n' > $W/g.txt
printf 'p1.patch -R\n' > $W/series
cat > $W/patches/p1.patch <<'P'
--- a/f.txt
+++ b/f.txt
@@ -1,3 +1,3 @@
 one
-two
+two-new
 three
--- a/g.txt
+++ b/g.txt
@@ -1,1 +1,1 @@
-nope
+never
P
$BIN push -d $W --threads $T >/dev/null 2>&1
rc=$?
got=$(cat $W/f.txt | tr '\n' ',')
rm -rf $W
if [ "$rc" != 1 ] || [ "$got" != "one,two-new,three," ]; then echo "violation (threads $T): exit=$rc content=$got"; exit 1; fi
done
exit 0
