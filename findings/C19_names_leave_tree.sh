#!/bin/sh
# C19 (fixed): file names with '..' components (surviving -pN) or absolute names were joined to the working directory
# unchecked, so a patch could create / modify / delete files outside the tree.
# usage: <script> <rapidquilt binary>; exits 0 if nothing outside the workspace is touched and the push fails cleanly.
BIN=${1:-rapidquilt}
S=$(mktemp -d)            # sentinel directory enclosing the workspace
mkdir -p $S/ws/patches $S/abs
printf 'outside\n' > $S/victim.txt
printf 'p1.patch\np2.patch -p0\np3.patch\n' > $S/ws/series
cat > $S/ws/patches/p1.patch <<'P'
--- a/../victim.txt
+++ b/../victim.txt
@@ -1 +1 @@
-outside
+pwned
P
printf -- '--- /dev/null\n+++ %s/abs/created.txt\n@@ -0,0 +1 @@\n+pwned\n' "$S" > $S/ws/patches/p2.patch
cat > $S/ws/patches/p3.patch <<'P'
--- /dev/null
+++ "b/sub/\056\056/\056\056/quoted.txt"
@@ -0,0 +1 @@
+pwned
P
bad=0
for n in 1 2 3; do
  ( cd $S/ws && rm -rf .pc && printf 'p%d.patch%s\n' $n "$( [ $n = 2 ] && echo ' -p0')" > series && $BIN push --threads 1 >/dev/null 2>&1 ); rc=$?
  [ "$rc" = 1 ] || { echo "violation: p$n.patch exit=$rc (expected 1)"; bad=1; }
done
[ "$(cat $S/victim.txt)" = "outside" ] || { echo "violation: file outside the tree modified"; bad=1; }
[ ! -e $S/abs/created.txt ] || { echo "violation: file created through an absolute name"; bad=1; }
[ ! -e $S/quoted.txt ] || { echo "violation: file created outside through a quoted name"; bad=1; }
rm -rf $S
exit $bad
