#!/bin/sh
# C03 (fixed): a hunk whose prefix context covers a line changed by the previous hunk.
# Both hunks match the unmodified file; the second splice then re-inserts its context over the first hunk's change.
# Before the fix: exit 0 and f.txt == "a\nb\n" (line x lost, removed line a resurrected); with hunk 1 at line 1: overflow panic.
# After the fix: the second hunk is rejected as misordered (exit 1, f.txt unchanged).
# usage: C03_context_over_changed.sh <rapidquilt binary>; exits 0 if the property holds.
set -e
BIN=${1:-rapidquilt}
W=$(mktemp -d)
mkdir -p $W/patches
printf 'x\na\nb\nc\n' > $W/f.txt
printf 'p1.patch\n' > $W/series
cat > $W/patches/p1.patch <<'P'
--- a/f.txt
+++ b/f.txt
@@ -2,1 +1,0 @@
-a
@@ -2,3 +2,2 @@
 a
 b
-c
P
set +e
$BIN push -d $W >/dev/null 2>&1
rc=$?
got=$(cat $W/f.txt | tr '\n' ',')
rm -rf $W
# allowed outcomes: both hunks applied on exactly the marked lines, or the patch refused with the file untouched
if [ "$rc" = 0 ] && [ "$got" = "x,b," ]; then exit 0; fi
if [ "$rc" = 1 ] && [ "$got" = "x,a,b,c," ]; then exit 0; fi
echo "violation: exit=$rc content=$got"; exit 1
