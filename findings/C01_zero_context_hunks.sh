#!/bin/bash
# C01 (fixed): unified diffs without context (diff -U0).  A side with no lines ("-5,0" / "+4,0") names the line
# *behind which* the change goes; parse_hunk treated it like a first-line number and placed pure insertions (and,
# with -R, pure deletions) one line too early -- silently, because an empty old side matches anywhere.
# usage: <script> <rapidquilt binary>; exits 0 if A + diff gives B and B + diff -R gives A.
BIN=${1:-rapidquilt}
rc_all=0
A='1\n2\n3\n4\n5\n6\n'
B='1\n2\n3\n4\n5\nnew-a\nnew-b\n6\n'
for MODE in fwd rev; do
W=$(mktemp -d)
mkdir -p $W/patches
cat > $W/patches/p.patch <<'P'
--- a/f.txt
+++ b/f.txt
@@ -5,0 +6,2 @@
+new-a
+new-b
P
if [ $MODE = fwd ]; then printf "$A" > $W/f.txt; printf 'p.patch\n' > $W/series; WANT="$B"; else printf "$B" > $W/f.txt; printf 'p.patch -R\n' > $W/series; WANT="$A"; fi
$BIN push -d $W --threads 1 >/dev/null 2>&1
rc=$?
if [ "$rc" != 0 ] || [ "$(cat $W/f.txt)" != "$(printf "$WANT")" ]; then echo "violation ($MODE): exit=$rc content=$(tr '\n' ',' < $W/f.txt)"; rc_all=1; fi
rm -rf $W
done
# zero-context deletion, reversed: re-inserts the deleted lines at the right place
W=$(mktemp -d); mkdir -p $W/patches
printf -- '--- a/f.txt\n+++ b/f.txt\n@@ -3,2 +2,0 @@\n-3\n-4\n' > $W/patches/p.patch
printf '1\n2\n5\n6\n' > $W/f.txt; printf 'p.patch -R\n' > $W/series
$BIN push -d $W --threads 1 >/dev/null 2>&1; rc=$?
if [ "$rc" != 0 ] || [ "$(cat $W/f.txt)" != "$(printf "$A")" ]; then echo "violation (deletion reversed): exit=$rc content=$(tr '\n' ',' < $W/f.txt)"; rc_all=1; fi
rm -rf $W
exit $rc_all
