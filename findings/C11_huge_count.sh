#!/bin/sh
# C11 (fixed): numeric fields of a hunk header beyond what the file can hold.
#  - a line count of 2^64-1 went straight into Vec::reserve: "capacity overflow" panic (exit 101);
#    10^12 asks the allocator for terabytes (abort)
#  - a line number of exactly 2^63: `as isize - 1` overflows (panic in debug builds)
# usage: <script> <rapidquilt binary>; exits 0 if every such patch is refused or applied without a crash (exit 0/1).
BIN=${1:-rapidquilt}
for HDR in '@@ -1,18446744073709551615 +1,1 @@' '@@ -1,1 +1,18446744073709551615 @@' '@@ -9223372036854775808,1 +1,1 @@' '@@ -1,1 +9223372036854775808,1 @@' '@@ -1,1000000000000 +1,1 @@'; do
W=$(mktemp -d)
mkdir -p $W/patches
printf 'a\n' > $W/f.txt
printf 'p1.patch\n' > $W/series
printf -- '--- a/f.txt\n+++ b/f.txt\n%s\n-a\n+b\n' "$HDR" > $W/patches/p1.patch
( ulimit -v 4000000; $BIN push -d $W --threads 1 >/dev/null 2>&1 )
rc=$?
rm -rf $W
if [ "$rc" != 0 ] && [ "$rc" != 1 ]; then echo "violation: header '$HDR' -> exit $rc"; exit 1; fi
done
exit 0
