#!/bin/sh
# C12 (fixed): file modes below 0o100000 were written with fewer than six octal digits ("old mode 644"); the parser (like
# patch) only takes six-digit modes, so the written form (a .rej file) silently lost the modes when read back.
# Input: a patch with `old mode 000644` / `new mode 000755` whose hunk fails; the reject file must carry six-digit modes.
# usage: <script> <rapidquilt binary>; exit 0 = the reject file's mode lines are accepted by the parser's rule
BIN=${1:-rapidquilt}
W=$(mktemp -d); mkdir -p $W/patches
printf 'a\nb\nc\n' > $W/f.txt
printf 'p1.patch\n' > $W/series
printf 'diff --git a/f.txt b/f.txt\nold mode 000644\nnew mode 000755\n--- a/f.txt\n+++ b/f.txt\n@@ -1,3 +1,3 @@\n a\n-X\n+B\n c\n' > $W/patches/p1.patch
$BIN push -d $W -a --threads 1 >/dev/null 2>&1
rc=0
if [ ! -f $W/f.txt.rej ]; then echo "violation: no reject file"; rc=1
elif ! grep -q '^old mode [0-7]\{6\}$' $W/f.txt.rej || ! grep -q '^new mode [0-7]\{6\}$' $W/f.txt.rej; then
  echo "violation: reject file carries modes the parser does not take: $(grep ' mode ' $W/f.txt.rej | tr '\n' ';')"; rc=1
fi
rm -rf $W
exit $rc
