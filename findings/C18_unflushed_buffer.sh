#!/bin/bash
# C18 (fixed): output written through a BufWriter that was dropped without flush(): a write error that only shows
# when the buffer is flushed (any file below 8 KiB) was swallowed: exit 0, patch recorded as applied, file empty.
# Writes are made to fail with EFBIG: file size limit 0 with SIGXFSZ ignored (works as root).
# usage: <script> <rapidquilt binary>; exits 0 if the failed write is reported (non-zero exit, patch not recorded).
BIN=${1:-rapidquilt}
rc_all=0
for T in 1 2; do
W=$(mktemp -d)
mkdir -p $W/patches $W/.pc
printf 'one\ntwo\n' > $W/f.txt
printf 'p1.patch\n' > $W/series
: > $W/.pc/applied-patches
printf -- '--- a/f.txt\n+++ b/f.txt\n@@ -1,2 +1,2 @@\n one\n-two\n+TWO\n' > $W/patches/p1.patch
( trap '' XFSZ; ulimit -f 0; exec $BIN push -d $W --threads $T --backup never >/dev/null 2>&1 )
rc=$?
rec=$(cat $W/.pc/applied-patches | wc -l)
if [ "$rc" = 0 ] || [ "$rec" != 0 ]; then echo "violation (threads $T): exit=$rc recorded=$rec f.txt has $(stat -c %s $W/f.txt 2>/dev/null) bytes"; rc_all=1; fi
rm -rf $W
done
exit $rc_all
