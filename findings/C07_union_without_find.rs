// Counterexample for property C07, harness instance `c07_n3_01_21` (C07 concrete prefix + one symbolic add + symbolic thread count).
// Failed check(s): "related names assigned to different workers" @ ../../../../verif/harness/parallel_h.rs:100
// Structure: {"names": 3, "prefix": [[0, 1], [2, 1]], "symbolic": "last call (a, None|Some(b)), thread_count in [1,16]"}
// Replay: python3 /verif/bin/check.py C07 --replay /verif/replays/C07/c07_n3_01_21.rs
// module: parallel target: bin
// --- instance (generated) ---
#[kani::proof]
#[kani::unwind(10)]
fn c07_n3_01_21() { dist_last(3, &[(0, Some(1)), (2, Some(1))]) }
// --- concrete values found by the solver ---
/// Test generated for harness `apply::parallel::verif_h::c07_n3_01_21` 
///
/// Check for `assertion`: ""related names assigned to different workers""

#[test]
fn kani_concrete_playback_c07_n3_01_21_14745872551254611937() {
    let concrete_vals: Vec<Vec<u8>> = vec![
        // 4ul
        vec![4, 0, 0, 0, 0, 0, 0, 0],
        // 1
        vec![1],
        // 2
        vec![2],
        // 1
        vec![1],
    ];
    kani::concrete_playback_run(concrete_vals, c07_n3_01_21);
}
