#!/bin/bash
# C04/C05 (fixed): a git rename A -> B where B already exists as an empty file, inside a patch that fails elsewhere.
# Undoing the rename marked B as deleted (and dropped its mode), so the failed push removed B from the tree.
# usage: <script> <rapidquilt binary>; exits 0 if the failed push leaves the tree untouched.
BIN=${1:-rapidquilt}
rc_all=0
for T in 1 2; do
W=$(mktemp -d)
mkdir -p $W/patches
printf 'content\n' > $W/a.txt
: > $W/b.txt; chmod 600 $W/b.txt
printf 'x\n' > $W/g.txt
printf 'p1.patch\n' > $W/series
cat > $W/patches/p1.patch <<'P'
diff --git a/a.txt b/b.txt
rename from a.txt
rename to b.txt
diff --git a/g.txt b/g.txt
--- a/g.txt
+++ b/g.txt
@@ -1 +1 @@
-nope
+never
P
$BIN push -d $W --threads $T >/dev/null 2>&1
rc=$?
ok=1
[ "$rc" = 1 ] || ok=0
[ -f $W/a.txt ] && [ "$(cat $W/a.txt)" = "content" ] || ok=0
[ -f $W/b.txt ] && [ ! -s $W/b.txt ] && [ "$(stat -c %a $W/b.txt)" = 600 ] || ok=0
if [ $ok = 0 ]; then echo "violation (threads $T): exit=$rc a.txt=$(ls $W/a.txt 2>&1 | tail -c 20) b.txt=$(stat -c '%a %s' $W/b.txt 2>&1 | tail -c 30)"; rc_all=1; fi
rm -rf $W
done
exit $rc_all
