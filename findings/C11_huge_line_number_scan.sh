#!/bin/sh
# C11 (fixed): a hunk whose stated line number lies far behind the end of the file (here 2^40; any number up to
# 2^63 works) and which does not match: the backward scan walked down from the stated line one line at a time, so the
# tool did not terminate in any reasonable time ("terminates ... exits with status 0 or 1").
# usage: <script> <rapidquilt binary>; exits 0 if the push finishes (exit 1: hunk does not apply) within 20 s.
BIN=${1:-rapidquilt}
W=$(mktemp -d)
mkdir -p $W/patches
printf 'a\n' > $W/f.txt
printf 'p1.patch\n' > $W/series
printf -- '--- a/f.txt\n+++ b/f.txt\n@@ -1099511627776,1 +1099511627776,1 @@\n-zzz\n+b\n' > $W/patches/p1.patch
timeout 20 $BIN push -d $W --threads 1 >/dev/null 2>&1
rc=$?
rm -rf $W
if [ "$rc" = 1 ]; then exit 0; fi
echo "violation: exit=$rc (124 = still scanning after 20 s)"; exit 1
