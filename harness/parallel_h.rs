//! Kani harness family for src/rapidquilt/apply/parallel.rs (FilenameDistributor, C07).
//! `VMap` is the overlay-only stand-in for std::collections::HashMap (hashbrown's SIMD group
//! probing does not get through symbolic execution); replay runs on the real HashMap.
#![allow(dead_code, unused_imports, unused_variables)]

use super::*;
use std::marker::PhantomData;

pub const VMAP_CAP: usize = 8;

/// Fixed-array association list with the API subset parallel.rs uses.
pub struct VMap<K, V, S> { keys: [Option<K>; VMAP_CAP], vals: [Option<V>; VMAP_CAP], n: usize, _s: PhantomData<S> }
pub struct VEntry<'a, K, V, S> { map: &'a mut VMap<K, V, S>, key: K }
impl<K: Eq, V, S> VMap<K, V, S> {
    pub fn with_hasher(_s: S) -> Self {
        VMap { keys: std::array::from_fn(|_| None), vals: std::array::from_fn(|_| None), n: 0, _s: PhantomData }
    }
    pub fn entry(&mut self, key: K) -> VEntry<'_, K, V, S> { VEntry { map: self, key } }
    pub fn values_mut(&mut self) -> impl Iterator<Item = &mut V> {
        let n = self.n;
        self.vals[..n].iter_mut().map(|v| v.as_mut().unwrap())
    }
    pub fn get(&self, k: &K) -> Option<&V> {
        let mut i = 0;
        while i < self.n {
            if self.keys[i].as_ref() == Some(k) { return self.vals[i].as_ref(); }
            i += 1;
        }
        None
    }
    pub fn len(&self) -> usize { self.n }
}
impl<'a, K: Eq, V, S> VEntry<'a, K, V, S> {
    pub fn or_insert(self, default: V) -> &'a mut V {
        let mut i = 0;
        let n = self.map.n;
        while i < n {
            if self.map.keys[i].as_ref() == Some(&self.key) { return self.map.vals[i].as_mut().unwrap(); }
            i += 1;
        }
        assert!(n < VMAP_CAP, "VMap capacity");
        self.map.keys[n] = Some(self.key);
        self.map.vals[n] = Some(default);
        self.map.n = n + 1;
        self.map.vals[n].as_mut().unwrap()
    }
}
impl<K: Eq, V, S, Q: std::borrow::Borrow<K>> std::ops::Index<Q> for VMap<K, V, S> {
    type Output = V;
    fn index(&self, k: Q) -> &V { self.get(k.borrow()).expect("no entry") }
}

/// Reference: plain union-find over at most 4 names (component label = smallest member is
/// irrelevant; only the partition matters).
struct RefUf { comp: [u8; 4], seen: [bool; 4] }
impl RefUf {
    fn new() -> Self { RefUf { comp: [0, 1, 2, 3], seen: [false; 4] } }
    fn add(&mut self, a: u8, b: Option<u8>) {
        self.seen[a as usize] = true;
        if let Some(b) = b {
            self.seen[b as usize] = true;
            let (ca, cb) = (self.comp[a as usize], self.comp[b as usize]);
            let mut i = 0;
            while i < 4 { if self.comp[i] == cb { self.comp[i] = ca; } i += 1; }
        }
    }
}

/// A concrete prefix of `add` calls (the instance), then ONE symbolic call `(a, None | Some(b))`
/// over `names` names and a symbolic thread count in [1, 16]; then `build()`.
/// Asserts: names in one reference component get one thread id; every id < thread_count.
pub fn dist_last(names: u8, prefix: &[(u8, Option<u8>)]) {
    let threads: usize = kani::any();
    kani::assume(threads >= 1 && threads <= 16);
    let mut d = FilenameDistributor::<u8>::new(threads);
    d.connected_components.reserve_exact(8); // capacity only: keeps Vec growth out of the formula
    let mut r = RefUf::new();
    let mut i = 0;
    while i < prefix.len() {
        let (a, b) = prefix[i];
        d.add(a, b);
        r.add(a, b);
        i += 1;
    }
    let a: u8 = kani::any();
    let b: u8 = kani::any();
    let has: bool = kani::any();
    kani::assume(a < names && b < names);
    // the driver never passes Some(b) with b == a (old == new name is passed as None)
    kani::assume(!has || a != b);
    let nb = if has { Some(b) } else { None };
    d.add(a, nb);
    r.add(a, nb);
    let m = d.build();
    let mut x = 0u8;
    while x < names {
        let mut y = 0u8;
        while y < names {
            if r.seen[x as usize] && r.seen[y as usize] && r.comp[x as usize] == r.comp[y as usize] {
                assert!(m.get(&x).unwrap() == m.get(&y).unwrap(), "related names assigned to different workers");
            }
            y += 1;
        }
        if r.seen[x as usize] {
            assert!(m.get(&x).is_some(), "a name that was added has no worker");
            assert!(*m.get(&x).unwrap() < threads, "worker id out of range");
        } else {
            assert!(m.get(&x).is_none());
        }
        x += 1;
    }
    kani::cover!(has && threads > 1, "symbolic relation with several workers");
    std::mem::forget(m);
}

/// Reference root of `x` in a parent array obeying `cc[i] <= i`.
fn ref_root<const N: usize>(cc: &[usize; N], x: usize) -> usize {
    let mut r = x;
    let mut k = 0;
    while k < N { if cc[r] == r { break; } r = cc[r]; k += 1; }
    r
}

/// One inductive step instead of call histories.  The state after ANY history of `add` calls over N names is a forest
/// with `cc[i] <= i` (every such forest is reached: register the names in order, then link i -> cc[i] for i descending,
/// both ends being representatives at that moment), names registered in order of first appearance (name k <-> index k).
/// `reg` names are registered (the instance); the parent array is symbolic under the invariant.
fn dist_state<const N: usize>(threads: usize, reg: usize) -> (FilenameDistributor<u8>, [usize; N]) {
    let mut d = FilenameDistributor::<u8>::new(threads);
    d.connected_components.reserve_exact(8);
    let mut k = 0;
    while k < reg { d.add(k as u8, None); k += 1; }
    let mut cc = [0usize; N];
    k = 0;
    while k < N {
        if k < reg { let p: usize = kani::any(); kani::assume(p <= k); cc[k] = p; d.connected_components[k] = p; } else { cc[k] = k; }
        k += 1;
    }
    (d, cc)
}

/// build() from an arbitrary valid state with all N names registered: same representative => same worker; ids < threads.
pub fn dist_state_build<const N: usize>() {
    let threads: usize = kani::any();
    kani::assume(threads >= 1 && threads <= 16);
    let (d, cc) = dist_state::<N>(threads, N);
    let m = d.build();
    let mut x = 0;
    while x < N {
        let wx = *m.get(&(x as u8)).unwrap();
        assert!(wx < threads, "worker id out of range");
        assert!(wx == ref_root(&cc, x) % threads, "a name is not sent to its representative's worker");
        let mut y = 0;
        while y < x {
            if ref_root(&cc, x) == ref_root(&cc, y) { assert!(wx == *m.get(&(y as u8)).unwrap(), "related names assigned to different workers"); }
            y += 1;
        }
        x += 1;
    }
    kani::cover!(N >= 4 && cc[N - 1] == N - 2 && cc[N - 2] == N - 3 && cc[N - 3] == N - 4 && threads > 1, "parent chain of depth 3");
    std::mem::forget(m);
}

/// add() from an arbitrary valid state with `reg` of N names registered: the invariant is kept, names stay registered in
/// order, and exactly the two components of the call are merged (nothing else changes in the partition).
pub fn dist_state_add<const N: usize>(reg: usize) {
    let (mut d, cc) = dist_state::<N>(4, reg);
    let a: u8 = kani::any();
    let b: u8 = kani::any();
    let has: bool = kani::any();
    // names are introduced in order of first appearance (renaming symmetry)
    kani::assume((a as usize) <= reg && (a as usize) < N);
    let reg1 = if (a as usize) == reg { reg + 1 } else { reg };
    kani::assume(!has || ((b as usize) <= reg1 && (b as usize) < N && a != b));
    let reg2 = if has && (b as usize) == reg1 { reg1 + 1 } else { reg1 };
    d.add(a, if has { Some(b) } else { None });
    assert!(d.connected_components.len() == reg2, "number of registered names");
    let mut after = [0usize; N];
    let mut k = 0;
    while k < N {
        if k < reg2 {
            after[k] = d.connected_components[k];
            assert!(after[k] <= k, "representation invariant broken: an entry points upwards");
            assert!(d.filename_to_index.get(&(k as u8)) == Some(&k), "name <-> index registration");
        } else { after[k] = k; }
        k += 1;
    }
    let (ra, rb) = (ref_root(&cc, a as usize), if has { ref_root(&cc, b as usize) } else { ref_root(&cc, a as usize) });
    let mut x = 0;
    while x < reg2 {
        let mut y = 0;
        while y < x {
            let (ox, oy) = (ref_root(&cc, x), ref_root(&cc, y));
            let want = ox == oy || ((ox == ra || ox == rb) && (oy == ra || oy == rb));
            assert!((ref_root(&after, x) == ref_root(&after, y)) == want, "add merged the wrong components");
            y += 1;
        }
        x += 1;
    }
    kani::cover!(has && ra != rb && cc[ra.max(rb)] == ra.max(rb), "two different components merged");
    std::mem::forget(d);
}

/// Vacuity twin.
pub fn dist_twin() {
    let mut d = FilenameDistributor::<u8>::new(4);
    d.add(0, Some(1));
    let m = d.build();
    assert!(m.get(&0).unwrap() != m.get(&1).unwrap(), "twin: reachable");
}

include!(concat!(env!("VERIF_GEN"), "/parallel_inst.rs"));
