//! Kani harness family for src/rapidquilt/apply/parallel.rs (FilenameDistributor, C07).
//! `VMap` is the overlay-only stand-in for std::collections::HashMap (hashbrown's SIMD group
//! probing does not get through symbolic execution); replay runs on the real HashMap.
#![allow(dead_code, unused_imports, unused_variables)]

use super::*;
use std::marker::PhantomData;

pub const VMAP_CAP: usize = 8;

/// Fixed-array association list with the API subset parallel.rs uses.
pub struct VMap<K, V, S> { keys: [Option<K>; VMAP_CAP], vals: [Option<V>; VMAP_CAP], n: usize, _s: PhantomData<S> }
pub struct VEntry<'a, K, V, S> { map: &'a mut VMap<K, V, S>, key: K }
impl<K: Eq, V, S> VMap<K, V, S> {
    pub fn with_hasher(_s: S) -> Self {
        VMap { keys: std::array::from_fn(|_| None), vals: std::array::from_fn(|_| None), n: 0, _s: PhantomData }
    }
    pub fn entry(&mut self, key: K) -> VEntry<'_, K, V, S> { VEntry { map: self, key } }
    pub fn values_mut(&mut self) -> impl Iterator<Item = &mut V> {
        let n = self.n;
        self.vals[..n].iter_mut().map(|v| v.as_mut().unwrap())
    }
    pub fn get(&self, k: &K) -> Option<&V> {
        let mut i = 0;
        while i < self.n {
            if self.keys[i].as_ref() == Some(k) { return self.vals[i].as_ref(); }
            i += 1;
        }
        None
    }
    pub fn len(&self) -> usize { self.n }
}
impl<'a, K: Eq, V, S> VEntry<'a, K, V, S> {
    pub fn or_insert(self, default: V) -> &'a mut V {
        let mut i = 0;
        let n = self.map.n;
        while i < n {
            if self.map.keys[i].as_ref() == Some(&self.key) { return self.map.vals[i].as_mut().unwrap(); }
            i += 1;
        }
        assert!(n < VMAP_CAP, "VMap capacity");
        self.map.keys[n] = Some(self.key);
        self.map.vals[n] = Some(default);
        self.map.n = n + 1;
        self.map.vals[n].as_mut().unwrap()
    }
}
impl<K: Eq, V, S, Q: std::borrow::Borrow<K>> std::ops::Index<Q> for VMap<K, V, S> {
    type Output = V;
    fn index(&self, k: Q) -> &V { self.get(k.borrow()).expect("no entry") }
}

/// Reference: plain union-find over at most 4 names (component label = smallest member is
/// irrelevant; only the partition matters).
struct RefUf { comp: [u8; 4], seen: [bool; 4] }
impl RefUf {
    fn new() -> Self { RefUf { comp: [0, 1, 2, 3], seen: [false; 4] } }
    fn add(&mut self, a: u8, b: Option<u8>) {
        self.seen[a as usize] = true;
        if let Some(b) = b {
            self.seen[b as usize] = true;
            let (ca, cb) = (self.comp[a as usize], self.comp[b as usize]);
            let mut i = 0;
            while i < 4 { if self.comp[i] == cb { self.comp[i] = ca; } i += 1; }
        }
    }
}

/// A concrete prefix of `add` calls (the instance), then ONE symbolic call `(a, None | Some(b))`
/// over `names` names and a symbolic thread count in [1, 16]; then `build()`.
/// Asserts: names in one reference component get one thread id; every id < thread_count.
pub fn dist_last(names: u8, prefix: &[(u8, Option<u8>)]) {
    let threads: usize = kani::any();
    kani::assume(threads >= 1 && threads <= 16);
    let mut d = FilenameDistributor::<u8>::new(threads);
    d.connected_components.reserve_exact(8); // capacity only: keeps Vec growth out of the formula
    let mut r = RefUf::new();
    let mut i = 0;
    while i < prefix.len() {
        let (a, b) = prefix[i];
        d.add(a, b);
        r.add(a, b);
        i += 1;
    }
    let a: u8 = kani::any();
    let b: u8 = kani::any();
    let has: bool = kani::any();
    kani::assume(a < names && b < names);
    // the driver never passes Some(b) with b == a (old == new name is passed as None)
    kani::assume(!has || a != b);
    let nb = if has { Some(b) } else { None };
    d.add(a, nb);
    r.add(a, nb);
    let m = d.build();
    let mut x = 0u8;
    while x < names {
        let mut y = 0u8;
        while y < names {
            if r.seen[x as usize] && r.seen[y as usize] && r.comp[x as usize] == r.comp[y as usize] {
                assert!(m.get(&x).unwrap() == m.get(&y).unwrap(), "related names assigned to different workers");
            }
            y += 1;
        }
        if r.seen[x as usize] {
            assert!(m.get(&x).is_some(), "a name that was added has no worker");
            assert!(*m.get(&x).unwrap() < threads, "worker id out of range");
        } else {
            assert!(m.get(&x).is_none());
        }
        x += 1;
    }
    kani::cover!(has && threads > 1, "symbolic relation with several workers");
    std::mem::forget(m);
}

/// Vacuity twin.
pub fn dist_twin() {
    let mut d = FilenameDistributor::<u8>::new(4);
    d.add(0, Some(1));
    let m = d.build();
    assert!(m.get(&0).unwrap() != m.get(&1).unwrap(), "twin: reachable");
}

include!(concat!(env!("VERIF_GEN"), "/parallel_inst.rs"));
