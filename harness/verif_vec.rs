//! Fixed-capacity inline vector standing in for std::vec::Vec in the *content* vectors only
//! (overlay feature `verif_containers`).  std's `Vec::splice` with a symbolic range exhausts
//! CBMC even on three elements; this one is a single bounded loop.  `VVec` is itself checked
//! against `Vec` (lemma harnesses in verif_vec_lemmas, native differential test in
//! /verif/native).  Capacity violations are *harness-infrastructure* failures ("VVec capacity"),
//! classified as inconclusive by the driver, never as a property violation.
use std::mem::MaybeUninit;
use std::ops::{Deref, DerefMut, Range};

/// Capacity; the driver sets VERIF_CAP per instance family (default 6).
pub const CAP: usize = parse_cap(option_env!("VERIF_CAP"));
const fn parse_cap(s: Option<&str>) -> usize {
    match s {
        None => 6,
        Some(s) => {
            let b = s.as_bytes();
            let mut i = 0; let mut v = 0usize;
            while i < b.len() { v = v * 10 + (b[i] - b'0') as usize; i += 1; }
            v
        }
    }
}

pub struct VVec<T> { buf: [MaybeUninit<T>; CAP], len: usize }

impl<T> VVec<T> {
    pub fn new() -> Self { VVec { buf: [const { MaybeUninit::uninit() }; CAP], len: 0 } }
    pub fn with_capacity(_n: usize) -> Self { Self::new() }
    pub fn reserve(&mut self, _n: usize) {}
    pub fn reserve_exact(&mut self, _n: usize) {}
    pub fn capacity(&self) -> usize { CAP }
    pub fn push(&mut self, v: T) {
        assert!(self.len < CAP, "VVec capacity");
        self.buf[self.len] = MaybeUninit::new(v);
        self.len += 1;
    }
    pub fn clear(&mut self) { self.len = 0; }
    pub fn extend<I: IntoIterator<Item = T>>(&mut self, it: I) { for v in it { self.push(v); } }
    /// Replace `range` by the items of `it` (std's Vec::splice with the returned iterator dropped).
    pub fn splice<I: IntoIterator<Item = T>>(&mut self, range: Range<usize>, it: I) where T: Copy {
        // std panics on start > end / end > len: keep that observable as an ordinary panic
        if range.start > range.end { panic!("slice index starts at {} but ends at {}", range.start, range.end); }
        if range.end > self.len { panic!("range end index {} out of range for slice of length {}", range.end, self.len); }
        let mut repl: [MaybeUninit<T>; CAP] = [const { MaybeUninit::uninit() }; CAP];
        let mut k = 0;
        for v in it { assert!(k < CAP, "VVec capacity"); repl[k] = MaybeUninit::new(v); k += 1; }
        let removed = range.end - range.start;
        let new_len = self.len - removed + k;
        assert!(new_len <= CAP, "VVec capacity");
        let old = self.buf;
        let mut i = 0;
        while i < CAP {
            if i >= range.start && i < new_len {
                self.buf[i] = if i < range.start + k { repl[i - range.start] } else { old[i - k + removed] };
            }
            i += 1;
        }
        self.len = new_len;
    }
}
impl<T> Deref for VVec<T> {
    type Target = [T];
    fn deref(&self) -> &[T] { unsafe { std::slice::from_raw_parts(self.buf.as_ptr() as *const T, self.len) } }
}
impl<T> DerefMut for VVec<T> {
    fn deref_mut(&mut self) -> &mut [T] { unsafe { std::slice::from_raw_parts_mut(self.buf.as_mut_ptr() as *mut T, self.len) } }
}
impl<T: Clone> Clone for VVec<T> {
    fn clone(&self) -> Self { let mut v = VVec::new(); let mut i = 0; while i < self.len { v.push(self[i].clone()); i += 1; } v }
}
impl<T: PartialEq> PartialEq for VVec<T> { fn eq(&self, o: &Self) -> bool { self[..] == o[..] } }
impl<T: std::fmt::Debug> std::fmt::Debug for VVec<T> {
    fn fmt(&self, f: &mut std::fmt::Formatter<'_>) -> std::fmt::Result { f.debug_list().entries(self.iter()).finish() }
}
impl<'a, T> IntoIterator for &'a VVec<T> {
    type Item = &'a T; type IntoIter = std::slice::Iter<'a, T>;
    fn into_iter(self) -> Self::IntoIter { self.iter() }
}
impl<T> Default for VVec<T> { fn default() -> Self { Self::new() } }
