//! Kani harness for src/rapidquilt/apply/common.rs (binary crate): the reject file name (C13).
#![allow(dead_code, unused_imports, unused_variables)]
use super::*;

/// make_rej_filename on concrete paths (std::path on symbolic bytes does not get through, see strip_case_m): the reject file sits
/// NEXT TO the file it belongs to -- same directory -- and is called <file name>.rej.
pub fn rej_name_case(path: &'static str, want: &'static str) {
    use std::os::unix::ffi::OsStrExt;
    let got = make_rej_filename(Path::new(path));
    let g = got.as_os_str().as_bytes();
    let w = want.as_bytes();
    assert!(g.len() == w.len(), "reject file name has the wrong length (directory dropped or name mangled)");
    let mut i = 0;
    while i < w.len() { assert!(g[i] == w[i], "reject file is not <dir>/<file name>.rej"); i += 1; }
    std::mem::forget(got);
}

include!(concat!(env!("VERIF_GEN"), "/common_inst.rs"));
