//! Kani harness families for src/libpatch/patch/unified/parser.rs (child module: private items).
//! C11 totality of every sub-parser, C01 lemma 1 (hunk text -> Hunk), numeric fields.
#![allow(dead_code, unused_imports, unused_variables)]

use super::*;
use crate::patch::*;

/// `rest` is a suffix of `input` (same allocation, ends at the same byte).
fn is_suffix(input: &[u8], rest: &[u8]) -> bool {
    let a = input.as_ptr() as usize;
    let r = rest.as_ptr() as usize;
    r >= a && r + rest.len() == a + input.len()
}

fn sym_buf<const L: usize>() -> [u8; L] { kani::any() }

/// prefix ++ symbolic tail of T bytes, in one buffer of P+T bytes (P, T concrete).
fn with_prefix<const N: usize>(prefix: &[u8]) -> [u8; N] {
    let mut b: [u8; N] = kani::any();
    let mut i = 0;
    while i < prefix.len() { b[i] = prefix[i]; i += 1; }
    b
}

// ------------------------------------------------------------------------------------------
// C11 (a): each sub-parser on a symbolic buffer.  Kani's built-in checks are the assertion
// (no panic, overflow, out-of-bounds, unwrap on None); the unwinding assertion is termination
// within the bound; on Ok the remainder is a suffix of the input.
// ------------------------------------------------------------------------------------------
macro_rules! total_on {
    ($name:ident, $f:expr, $strict:expr) => {
        pub fn $name<const L: usize>(len: usize) {
            let buf: [u8; L] = kani::any();
            let input = &buf[..len];
            match $f(input) {
                Ok((rest, v)) => {
                    assert!(is_suffix(input, rest), "remainder is not a suffix of the input");
                    if $strict { assert!(rest.len() < input.len(), "parser succeeded without consuming input"); }
                    kani::cover!(true, "parsed");
                    std::mem::forget(v);
                }
                Err(e) => { kani::cover!(true, "rejected"); std::mem::forget(e); }
            }
        }
    };
}
total_on!(t_number, parse_number_usize, true);
total_on!(t_line_and_count, parse_hunk_line_and_count, true);
total_on!(t_hunk_header, parse_hunk_header, true);
total_on!(t_hunk_line, parse_hunk_line, true);
total_on!(t_c_string, parse_c_string, true);
total_on!(t_filename, parse_filename, true);
total_on!(t_filename_direct, parse_filename_direct, true);
total_on!(t_mode, parse_mode, true);
total_on!(t_git_hash, parse_git_hash, true);
total_on!(t_newline, newline, true);
total_on!(t_take_line_skip, take_line_skip, true);
total_on!(t_take_line_incl, take_line_incl, true);
total_on!(t_hunk, parse_hunk, true);
total_on!(t_hunks, parse_hunks, false);
total_on!(t_metadata_line, parse_metadata_line, true);
total_on!(t_git_metadata_line, parse_git_metadata_line, true);
total_on!(t_patch_line, parse_patch_line, false);
total_on!(t_git_patch_line, parse_git_patch_line, false);

pub fn t_oct3() {
    let b: [u8; 4] = kani::any();
    let n: usize = kani::any();
    kani::assume(n <= 4);
    let r = parse_oct3(&b[..n]);
    if let Some(v) = r {
        assert!(n >= 3);
        assert!(v as u32 == ((b[0] - b'0') as u32) * 64 + ((b[1] - b'0') as u32) * 8 + (b[2] - b'0') as u32);
    }
}

/// keyword-prefixed metadata lines: concrete keyword, symbolic tail
pub fn t_prefixed<const N: usize>(prefix: &[u8], git: bool) {
    let buf = with_prefix::<N>(prefix);
    let input = &buf[..];
    let r: Result<&[u8], ErrorBuilder> = if git {
        match parse_git_metadata_line(input) { Ok((rest, v)) => { std::mem::forget(v); Ok(rest) } Err(e) => Err(e) }
    } else {
        match parse_metadata_line(input) { Ok((rest, v)) => { std::mem::forget(v); Ok(rest) } Err(e) => Err(e) }
    };
    match r {
        Ok(rest) => {
            assert!(is_suffix(input, rest) && rest.len() < input.len());
            kani::cover!(true, "parsed");
        }
        Err(e) => { kani::cover!(true, "rejected"); std::mem::forget(e); }
    }
}

/// error construction: ParseError::from on every ErrorBuilder a sub-parser can return
pub fn t_error_from<const L: usize>() {
    let buf: [u8; L] = kani::any();
    let which: u8 = kani::any();
    let input = &buf[..];
    let e = match which {
        0 => ErrorBuilder::UnsupportedMetadata(input),
        1 => ErrorBuilder::MissingFilenameForHunk(input),
        2 => ErrorBuilder::UnexpectedEndOfLine(input),
        3 => ErrorBuilder::UnexpectedEndOfFile,
        4 => ErrorBuilder::BadHunkHeader(input),
        5 => ErrorBuilder::BadLineInHunk(input),
        6 => ErrorBuilder::NumberTooBig(input),
        7 => ErrorBuilder::BadNumber(input),
        8 => ErrorBuilder::BadMode(input),
        9 => ErrorBuilder::BadSequence(input),
        _ => ErrorBuilder::BadHash(input),
    };
    // error_line / error_word / error_sequence: index arithmetic on arbitrary bytes
    let d = match which {
        0 | 1 | 2 | 4 | 5 => error_line(input).len(),
        7 | 8 | 10 => error_word(input).len(),
        9 => error_sequence(input).len(),
        _ => 0,
    };
    std::mem::forget(e);
}

// ------------------------------------------------------------------------------------------
// C11 (b): numeric fields.  Hunk header with four symbolic digit strings of concrete lengths
// (values straddle 2^63 and 2^64), then parse_hunk over a one-line body: `reserve(count)` and
// `line as isize - 1` live there.  Also (d): capacity proportional to the input.
// ------------------------------------------------------------------------------------------
pub fn t_numeric<const N: usize>(d1: usize, d2: usize, d3: usize, d4: usize) {
    // layout: "@@ -" D1 "," D2 " +" D3 "," D4 " @@\n" BODY(4 bytes symbolic)
    let mut buf: [u8; N] = kani::any();
    let mut p = 0;
    let put = |buf: &mut [u8; N], p: &mut usize, s: &[u8]| { let mut i = 0; while i < s.len() { buf[*p] = s[i]; *p += 1; i += 1; } };
    let digits = |buf: &mut [u8; N], p: &mut usize, n: usize| { let mut i = 0; while i < n { kani::assume(buf[*p] >= b'0' && buf[*p] <= b'9'); *p += 1; i += 1; } };
    put(&mut buf, &mut p, b"@@ -");
    digits(&mut buf, &mut p, d1);
    put(&mut buf, &mut p, b",");
    digits(&mut buf, &mut p, d2);
    put(&mut buf, &mut p, b" +");
    digits(&mut buf, &mut p, d3);
    put(&mut buf, &mut p, b",");
    digits(&mut buf, &mut p, d4);
    put(&mut buf, &mut p, b" @@\n");
    assert!(p + 4 == N, "verif-infra: layout");
    let input = &buf[..];
    match parse_hunk(input) {
        Ok((rest, h)) => {
            assert!(is_suffix(input, rest));
            assert!(h.remove.target_line >= 0 && h.add.target_line >= 0);
            // interface with placement: c11c_place_any_line decides try_apply_hunk's arithmetic (line + 1, line + offset, scans) for
            // every stated line up to isize::MAX / 2 -- the parser must not hand out anything beyond that
            assert!(h.remove.target_line <= isize::max_value() / 2 && h.add.target_line <= isize::max_value() / 2,
                    "start line beyond the range placement arithmetic is safe for (isize::MAX / 2)");
            assert!(h.remove.content.capacity() <= N && h.add.content.capacity() <= N, "allocation out of proportion to the input");
            kani::cover!(true, "hunk parsed");
            std::mem::forget(h);
        }
        Err(e) => { kani::cover!(true, "hunk rejected"); std::mem::forget(e); }
    }
}

/// concrete header text (numbers from the instance matrix: 0, 1, 2^63-1, 2^63, 2^64-1, 2^64, ...), symbolic 4-byte body
pub fn t_numeric_conc<const N: usize>(hdr: &[u8]) {
    let mut buf: [u8; N] = kani::any();
    assert!(hdr.len() + 4 == N, "verif-infra: layout");
    let mut i = 0;
    while i < hdr.len() { buf[i] = hdr[i]; i += 1; }
    let input = &buf[..];
    match parse_hunk(input) {
        Ok((rest, h)) => {
            assert!(is_suffix(input, rest));
            assert!(h.remove.target_line >= 0 && h.add.target_line >= 0);
            assert!(h.remove.target_line <= isize::max_value() / 2 && h.add.target_line <= isize::max_value() / 2,
                    "start line beyond the range placement arithmetic is safe for (isize::MAX / 2)");
            assert!(h.remove.content.capacity() <= N && h.add.content.capacity() <= N, "allocation out of proportion to the input");
            kani::cover!(true, "hunk parsed");
            std::mem::forget(h);
        }
        Err(e) => { kani::cover!(true, "hunk rejected"); std::mem::forget(e); }
    }
}

/// header only, all four fields: value semantics (decimal value or error; never a wrong number)
pub fn t_header_value<const N: usize>(d: usize) {
    // "@@ -" D ",1 +1,1 @@\n"
    let mut buf: [u8; N] = kani::any();
    let mut p = 0;
    let pre = b"@@ -";
    let post = b",1 +1,1 @@\n";
    let mut i = 0; while i < pre.len() { buf[p] = pre[i]; p += 1; i += 1; }
    let start = p;
    i = 0; while i < d { kani::assume(buf[p] >= b'0' && buf[p] <= b'9'); p += 1; i += 1; }
    i = 0; while i < post.len() { buf[p] = post[i]; p += 1; i += 1; }
    assert!(p == N, "verif-infra: layout");
    // reference value with overflow detection
    let mut v: u128 = 0;
    i = 0; while i < d { v = v * 10 + (buf[start + i] - b'0') as u128; i += 1; }
    match parse_hunk_header(&buf[..]) {
        Ok((rest, h)) => {
            assert!(rest.is_empty());
            assert!(v <= u64::MAX as u128, "a number above 2^64-1 was accepted");
            assert!(h.remove_line as u128 == v, "wrong numeric value");
            assert!(h.remove_count == 1 && h.add_line == 1 && h.add_count == 1);
            kani::cover!(true, "header parsed");
        }
        Err(e) => {
            assert!(v > u64::MAX as u128, "a representable number was rejected");
            kani::cover!(true, "header rejected");
            std::mem::forget(e);
        }
    }
}

// ------------------------------------------------------------------------------------------
// C01 lemma 1: hunk text -> Hunk.  The text is generated from an edit script (concrete layout:
// marker per line, `\ No newline` positions, header numbers as a diff tool writes them) with
// symbolic line bytes; the parsed Hunk must carry exactly those sequences, context counts and
// 0-based start lines *at which those lines sit in A and B*.
// ops: b' ' context, b'-' removed, b'+' added.  old_start/new_start: 1-based first line of the
// side, or (empty side) the line after which it goes — the unified-diff convention.
// ------------------------------------------------------------------------------------------
pub fn t_hunk_text<const N: usize, const K: usize>(ops: [u8; K], old_start: usize, new_start: usize, no_nl_old_last: bool, no_nl_new_last: bool) {
    let lines: [u8; K] = kani::any();
    let mut i = 0;
    while i < K { kani::assume(lines[i] != b'\n'); i += 1; }
    let (mut nold, mut nnew) = (0usize, 0usize);
    i = 0;
    while i < K { if ops[i] != b'+' { nold += 1; } if ops[i] != b'-' { nnew += 1; } i += 1; }
    // which op index is the last old / new line
    let (mut last_old, mut last_new) = (K, K);
    i = 0;
    while i < K { if ops[i] != b'+' { last_old = i; } if ops[i] != b'-' { last_new = i; } i += 1; }

    let mut buf = [0u8; N];
    let mut p = 0;
    let mut put = |buf: &mut [u8; N], p: &mut usize, s: &[u8]| { let mut j = 0; while j < s.len() { assert!(*p < N, "verif-infra: text buffer"); buf[*p] = s[j]; *p += 1; j += 1; } };
    let num = |n: usize| -> [u8; 1] { assert!(n < 10, "verif-infra: one digit"); [b'0' + n as u8] };
    put(&mut buf, &mut p, b"@@ -");
    put(&mut buf, &mut p, &num(old_start));
    put(&mut buf, &mut p, b",");
    put(&mut buf, &mut p, &num(nold));
    put(&mut buf, &mut p, b" +");
    put(&mut buf, &mut p, &num(new_start));
    put(&mut buf, &mut p, b",");
    put(&mut buf, &mut p, &num(nnew));
    put(&mut buf, &mut p, b" @@\n");
    i = 0;
    while i < K {
        put(&mut buf, &mut p, &[ops[i], lines[i], b'\n']);
        let tag = (no_nl_old_last && i == last_old && ops[i] != b'+') || (no_nl_new_last && i == last_new && ops[i] != b'-');
        if tag { put(&mut buf, &mut p, b"\\ No newline at end of file\n"); }
        i += 1;
    }
    let text = &buf[..p];
    let (rest, h) = match parse_hunk(text) { Ok(x) => x, Err(e) => { std::mem::forget(e); assert!(false, "a well-formed hunk was rejected"); return; } };
    assert!(rest.is_empty(), "hunk text not consumed");
    assert!(h.remove.content.len() == nold && h.add.content.len() == nnew, "side lengths");
    // sequences, in order, byte for byte (line + its terminator unless tagged)
    let (mut io, mut ia) = (0usize, 0usize);
    i = 0;
    while i < K {
        if ops[i] != b'+' {
            let l = h.remove.content[io];
            let nonl = no_nl_old_last && i == last_old;
            assert!(l[0] == lines[i] && l.len() == if nonl { 1 } else { 2 } && (nonl || l[1] == b'\n'), "old-side line differs");
            io += 1;
        }
        if ops[i] != b'-' {
            let l = h.add.content[ia];
            let nonl = no_nl_new_last && i == last_new;
            assert!(l[0] == lines[i] && l.len() == if nonl { 1 } else { 2 } && (nonl || l[1] == b'\n'), "new-side line differs");
            ia += 1;
        }
        i += 1;
    }
    // context counts: leading run of ' ' and trailing run of ' '
    let mut pre = 0; while pre < K && ops[pre] == b' ' { pre += 1; }
    let mut suf = 0; while suf < K - pre && ops[K - 1 - suf] == b' ' { suf += 1; }
    if pre == K { assert!(h.prefix_context == K && h.suffix_context == 0); }
    else { assert!(h.prefix_context == pre && h.suffix_context == suf, "context counts"); }
    // start lines (0-based index at which the side's first line sits; for an empty side: the
    // index at which lines are to be inserted, i.e. the number of lines before it)
    let want_old = if nold == 0 { old_start } else { old_start - 1 };
    let want_new = if nnew == 0 { new_start } else { new_start - 1 };
    assert!(h.remove.target_line == want_old as isize, "old-side start line");
    assert!(h.add.target_line == want_new as isize, "new-side start line");
    kani::cover!(true, "hunk text parsed");
    std::mem::forget(h);
}

/// parse_hunk behind a concrete, valid header ("@@ -1,2 +1,2 @@\n") with a symbolic body of L bytes
pub fn t_hunk_body<const L: usize>() {
    let hdr = b"@@ -1,2 +1,2 @@\n";
    let mut buf = [0u8; 32];
    let body: [u8; L] = kani::any();
    let mut i = 0;
    while i < hdr.len() { buf[i] = hdr[i]; i += 1; }
    i = 0;
    while i < L { buf[hdr.len() + i] = body[i]; i += 1; }
    let input = &buf[..hdr.len() + L];
    match parse_hunk(input) {
        Ok((rest, h)) => {
            assert!(is_suffix(input, rest) && rest.len() < input.len());
            assert!(h.remove.content.len() == 2 && h.add.content.len() == 2);
            assert!(h.prefix_context + h.suffix_context <= 2);
            kani::cover!(true, "parsed");
            std::mem::forget(h);
        }
        Err(e) => { kani::cover!(true, "rejected"); std::mem::forget(e); }
    }
}

// ------------------------------------------------------------------------------------------
// C01 lemma 2 / 4: header dialects -> (kind, names, rename flag, hunk count) on concrete templates,
// end to end through parse_patch (wiring of parse_filepatch, parse_hunks, build_filepatch, strip).
// kind: 0 modify, 1 create, 2 delete.  Names are compared as bytes; b"" = None.
// ------------------------------------------------------------------------------------------
pub fn t_dialect(text: &[u8], strip: usize, kind: u8, old_name: &[u8], new_name: &[u8], is_rename: bool, nhunks: usize, nfiles: usize) {
    use std::os::unix::ffi::OsStrExt;
    // parse_filepatch + strip: exactly what parse_patch's loop does per file patch (parse_patch itself converts errors
    // into failure::Error, whose drop glue is out of the solver's reach)
    let (rest, (_hdr, mut fp0)) = match parse_filepatch(text, false) { Ok(x) => x, Err(e) => { std::mem::forget(e); assert!(false, "an accepted header style was rejected"); return; } };
    fp0.strip(strip);
    if nfiles == 1 { assert!(rest.is_empty(), "text left over after the only file patch"); }
    else { assert!(!rest.is_empty(), "second file patch swallowed"); }
    let fp = &fp0;
    let k = match fp.kind() { FilePatchKind::Modify => 0u8, FilePatchKind::Create => 1, FilePatchKind::Delete => 2 };
    assert!(k == kind, "file patch kind");
    assert!(fp.is_rename() == is_rename, "rename flag");
    assert!(fp.hunks().len() == nhunks, "number of hunks");
    match fp.old_filename() {
        Some(n) => { assert!(n.as_os_str().as_bytes() == old_name, "old name"); }
        None => { assert!(old_name.is_empty(), "old name must be absent (/dev/null)"); }
    }
    match fp.new_filename() {
        Some(n) => { assert!(n.as_os_str().as_bytes() == new_name, "new name"); }
        None => { assert!(new_name.is_empty(), "new name must be absent (/dev/null)"); }
    }
    kani::cover!(true, "dialect parsed");
    std::mem::forget(fp0);
}

/// parse_filename: bytes in = bytes out (unquoted: up to the first white-space; quoted without
/// escapes: between the quotes); "/dev/null" is DevNull in both spellings.
pub fn t_filename_value<const L: usize>(quoted: bool) {
    use std::os::unix::ffi::OsStrExt;
    let name: [u8; L] = kani::any();
    let mut i = 0;
    while i < L {
        kani::assume(!is_whitespace(name[i]) && name[i] != b'"' && name[i] != b'\\');
        i += 1;
    }
    let mut buf = [b'\n'; 16];
    let mut p = 0;
    if quoted { buf[p] = b'"'; p += 1; }
    i = 0;
    while i < L { buf[p] = name[i]; p += 1; i += 1; }
    if quoted { buf[p] = b'"'; p += 1; }
    buf[p] = b'\t'; p += 1;
    let input = &buf[..p + 1];
    match parse_filename(input) {
        Ok((rest, Filename::Real(path))) => {
            assert!(path.as_os_str().as_bytes() == &name[..], "file name bytes changed");
            assert!(rest.len() == 2 && rest[0] == b'\t');
        }
        Ok((_, Filename::DevNull)) => { assert!(false, "not /dev/null"); }
        Err(e) => { std::mem::forget(e); assert!(false, "a plain file name was rejected"); }
    }
}

// ------------------------------------------------------------------------------------------
// C12: write-then-parse.  (i) hunk header arithmetic, (ii) hunk body with symbolic bytes from a
// 4-letter alphabet, (iii) file header per kind / rename / modes / hashes (concrete).
// ------------------------------------------------------------------------------------------
use crate::patch::unified::writer::{UnifiedPatchHunkHeaderWriter, UnifiedPatchHunkWriter, UnifiedPatchWriter};

/// Fixed-size sink: keeps `Vec<u8>` growth out of the formula.  `write_fmt` (what `write!` calls) can be answered
/// from a list of canned outputs instead of running core::fmt (whose function-pointer dispatch dominates the
/// formula): the numeric formatting of the hunk header is then *assumed* (std's Display for integers; the
/// start-line arithmetic itself is decided for all values by the MIR VC vc_start_line_roundtrip).
pub struct Sink<const N: usize> { pub b: [u8; N], pub n: usize, pub canned: [&'static [u8]; 8], pub k: usize }
impl<const N: usize> Sink<N> {
    pub fn new() -> Self { Sink { b: [0; N], n: 0, canned: [&[]; 8], k: 99 } }
    pub fn with_canned(c: [&'static [u8]; 8]) -> Self { Sink { b: [0; N], n: 0, canned: c, k: 0 } }
    pub fn bytes(&self) -> &[u8] { &self.b[..self.n] }
    pub fn put(&mut self, d: &[u8]) {
        let mut i = 0;
        while i < d.len() { assert!(self.n < N, "verif-infra: Sink capacity"); self.b[self.n] = d[i]; self.n += 1; i += 1; }
    }
}
impl<const N: usize> std::io::Write for Sink<N> {
    fn write(&mut self, d: &[u8]) -> std::io::Result<usize> { self.put(d); Ok(d.len()) }
    fn write_all(&mut self, d: &[u8]) -> std::io::Result<()> { self.put(d); Ok(()) }
    fn flush(&mut self) -> std::io::Result<()> { Ok(()) }
    fn write_fmt(&mut self, _args: std::fmt::Arguments<'_>) -> std::io::Result<()> {
        // canned text only: the real formatter lives in FmtSink, so that core::fmt is not even compiled into these harnesses
        assert!(self.k < 8, "verif-infra: canned write! outputs exhausted");
        let c = self.canned[self.k];
        self.k += 1;
        self.put(c);
        Ok(())
    }
}

/// Sink that runs the real formatter (only used by the concrete header family).
pub struct FmtSink<const N: usize>(pub Sink<N>);
impl<const N: usize> FmtSink<N> {
    pub fn new() -> Self { FmtSink(Sink::new()) }
    pub fn bytes(&self) -> &[u8] { self.0.bytes() }
}
impl<const N: usize> std::io::Write for FmtSink<N> {
    fn write(&mut self, d: &[u8]) -> std::io::Result<usize> { self.0.put(d); Ok(d.len()) }
    fn write_all(&mut self, d: &[u8]) -> std::io::Result<()> { self.0.put(d); Ok(()) }
    fn flush(&mut self) -> std::io::Result<()> { Ok(()) }
    fn write_fmt(&mut self, args: std::fmt::Arguments<'_>) -> std::io::Result<()> {
        struct A<'a, const M: usize>(&'a mut Sink<M>);
        impl<'a, const M: usize> std::fmt::Write for A<'a, M> { fn write_str(&mut self, s: &str) -> std::fmt::Result { self.0.put(s.as_bytes()); Ok(()) } }
        // no io::Error is ever constructed here: its recursive drop glue alone exhausts the solver's memory
        if std::fmt::write(&mut A(&mut self.0), args).is_err() { panic!("verif-infra: formatting error"); }
        Ok(())
    }
}

/// Door for the writer harness (the metadata enums are private to parser.rs): classify one header line of a file patch.
/// Returns (code, value, rest_len).  code: 0 OldMode 1 NewMode 2 DeletedFileMode 3 NewFileMode 4 RenameFrom 5 RenameTo 6 Index
/// 7 GitDiffSeparator 8 MinusFilename 9 PlusFilename 10 other accepted metadata, 100 rejected.  value: the mode; for name
/// lines the first byte of the (first) name, 0 for /dev/null.
pub fn verif_classify_line(line: &[u8]) -> (u8, u32, usize) {
    fn nm(f: &Filename) -> u32 {
        use std::os::unix::ffi::OsStrExt;
        match f { Filename::DevNull => 0, Filename::Real(p) => { let b = p.as_os_str().as_bytes(); if b.is_empty() { 1 } else { b[0] as u32 } } }
    }
    match parse_git_metadata_line(line) {
        Ok((rest, v)) => {
            let r = match v {
                GitMetadataLine::OldMode(m) => (0, m), GitMetadataLine::NewMode(m) => (1, m), GitMetadataLine::DeletedFileMode(m) => (2, m),
                GitMetadataLine::NewFileMode(m) => (3, m), GitMetadataLine::RenameFrom => (4, 0), GitMetadataLine::RenameTo => (5, 0),
                GitMetadataLine::Index(a, b, _) => (6, (a.len() * 100 + b.len()) as u32), _ => (10, 0),
            };
            return (r.0, r.1, rest.len());
        }
        Err(e) => { std::mem::forget(e); }
    }
    match parse_metadata_line(line) {
        Ok((rest, v)) => {
            let r = match &v {
                MetadataLine::GitDiffSeparator(a, _) => (7, nm(a)), MetadataLine::MinusFilename(a) => (8, nm(a)), MetadataLine::PlusFilename(a) => (9, nm(a)),
            };
            std::mem::forget(v);
            (r.0, r.1, rest.len())
        }
        Err(e) => { std::mem::forget(e); (100, 0, 0) }
    }
}

fn alpha(x: u8) -> u8 { match x & 3 { 0 => b'a', 1 => b'b', 2 => b'c', _ => b'\\' } }

/// (i) header: start lines and side lengths from the matrix (lines are concrete dummies)
pub fn t_write_header(old_start: isize, new_start: isize, nold: usize, nnew: usize) {
    let l = b"x\n";
    let mut h: TextHunk = Hunk::new(old_start, new_start, &b""[..]);
    let mut i = 0;
    while i < nold { h.remove.content.push(&l[..]); i += 1; }
    i = 0;
    while i < nnew { h.add.content.push(&l[..]); i += 1; }
    let mut out = FmtSink::<48>::new();
    let r = h.write_header_to(&mut out);
    assert!(r.is_ok());
    std::mem::forget(r);
    out.0.put(b"\n");
    let (rest, hh) = match parse_hunk_header(out.bytes()) { Ok(x) => x, Err(e) => { std::mem::forget(e); assert!(false, "written hunk header is rejected"); return; } };
    assert!(rest.is_empty());
    assert!(hh.remove_count == nold && hh.add_count == nnew, "counts changed");
    // what parse_hunk makes of these numbers must be the start lines we started from
    let back_old = if nold == 0 { hh.remove_line as isize } else { hh.remove_line as isize - 1 };
    let back_new = if nnew == 0 { hh.add_line as isize } else { hh.add_line as isize - 1 };
    assert!(back_old == old_start, "old-side start line is not preserved by the written header");
    assert!(back_new == new_start, "new-side start line is not preserved by the written header");
    std::mem::forget(h);
}

/// (ii) body: K lines described by ops (' ', '-', '+'), symbolic bytes from a 4-letter alphabet; a line
/// without terminator where the flags say so.  write -> parse -> same sequences and start lines; write again -> same bytes.
pub fn t_write_body<const K: usize>(ops: [u8; K], old_start: isize, new_start: isize, no_nl_old_last: bool, no_nl_new_last: bool, hdr: &'static [u8]) {
    let raw: [u8; K] = kani::any();
    let mut lines = [[0u8; 2]; K];
    let mut i = 0;
    while i < K { lines[i] = [alpha(raw[i]), b'\n']; i += 1; }
    // the equality pattern among the lines is part of the instance: distinct script positions carry distinct lines
    // (a context line is one position shared by both sides), so the layout of the written hunk is determined and only
    // the byte values are left to the solver
    i = 0;
    while i < K { let mut j = i + 1; while j < K { kani::assume(lines[i][0] != lines[j][0]); j += 1; } i += 1; }
    let (mut last_old, mut last_new) = (K, K);
    i = 0;
    while i < K { if ops[i] != b'+' { last_old = i; } if ops[i] != b'-' { last_new = i; } i += 1; }
    let mut h: TextHunk = Hunk::new(old_start, new_start, &b""[..]);
    i = 0;
    while i < K {
        if ops[i] != b'+' { let n = if no_nl_old_last && i == last_old { 1 } else { 2 }; h.remove.content.push(&lines[i][..n]); }
        if ops[i] != b'-' { let n = if no_nl_new_last && i == last_new { 1 } else { 2 }; h.add.content.push(&lines[i][..n]); }
        i += 1;
    }
    let mut pre = 0; while pre < K && ops[pre] == b' ' { pre += 1; }
    let mut suf = 0; while suf < K - pre && ops[K - 1 - suf] == b' ' { suf += 1; }
    h.prefix_context = pre; h.suffix_context = if pre == K { 0 } else { suf };
    let mut out = Sink::<160>::with_canned([hdr, &[], &[], &[], &[], &[], &[], &[]]);
    let r1 = h.write_to(&mut out);
    assert!(r1.is_ok());
    std::mem::forget(r1);
    let (rest, g) = match parse_hunk(out.bytes()) { Ok(x) => x, Err(e) => { std::mem::forget(e); assert!(false, "written hunk is rejected by the parser"); return; } };
    assert!(rest.is_empty(), "written hunk not consumed");
    assert!(g.remove.content.len() == h.remove.content.len() && g.add.content.len() == h.add.content.len(), "side lengths changed");
    i = 0;
    while i < h.remove.content.len() { assert!(g.remove.content[i] == h.remove.content[i], "old-side line changed"); i += 1; }
    i = 0;
    while i < h.add.content.len() { assert!(g.add.content[i] == h.add.content[i], "new-side line changed"); i += 1; }
    assert!(g.remove.target_line == h.remove.target_line && g.add.target_line == h.add.target_line, "start lines changed");
    let mut out2 = Sink::<160>::with_canned([hdr, &[], &[], &[], &[], &[], &[], &[]]);
    let r2 = g.write_to(&mut out2);
    assert!(r2.is_ok());
    std::mem::forget(r2);
    assert!(out2.n == out.n, "writing is not a fixed point (length)");
    i = 0;
    while i < out.n { assert!(out2.b[i] == out.b[i], "writing is not a fixed point"); i += 1; }
    kani::cover!(true, "round trip done");
    std::mem::forget(h); std::mem::forget(g);
}

/// (ii') writer lemma, no parser involved: the body `write_to` emits is a sequence of records `M x \n` whose '-' and ' '
/// records, in order, are exactly the old side, whose '+' and ' ' records are exactly the new side, and a ' ' record is only
/// written for a line that is equal on both sides.  Lines are 2 bytes (letter + newline), bytes symbolic (4-letter alphabet).
/// With C01 lemma 1 (every such text parses to exactly its edit script) this gives write-then-parse for the body; the
/// writer reads nothing but the two sequences and the start lines, so writing the re-parsed hunk reproduces the text.
pub fn t_write_scan<const KO: usize, const KN: usize>(hdr: &'static [u8]) {
    let ro: [u8; KO] = kani::any();
    let rn: [u8; KN] = kani::any();
    // flat buffers (line i = bytes 2i, 2i+1): with nested arrays `[[u8; 2]; K]`, K >= 2, CBMC 6.11 reads a stale byte through
    // the slice pointer (seen in a full trace; the native run of the same values passes), see DESIGN.md 11.4
    let mut fo = [b'\n'; 6];
    let mut fnw = [b'\n'; 6];
    assert!(KO <= 3 && KN <= 3, "verif-infra: at most 3 lines per side");
    let mut i = 0;
    while i < KO { fo[2 * i] = alpha(ro[i]); i += 1; }
    i = 0;
    while i < KN { fnw[2 * i] = alpha(rn[i]); i += 1; }
    let mut lo = [[0u8; 2]; KO];
    let mut ln = [[0u8; 2]; KN];
    i = 0;
    while i < KO { lo[i] = [fo[2 * i], b'\n']; i += 1; }
    i = 0;
    while i < KN { ln[i] = [fnw[2 * i], b'\n']; i += 1; }
    let mut h: TextHunk = Hunk::new(3, 3, &b""[..]);
    i = 0;
    while i < KO { h.remove.content.push(&fo[2 * i..2 * i + 2]); i += 1; }
    i = 0;
    while i < KN { h.add.content.push(&fnw[2 * i..2 * i + 2]); i += 1; }
    let mut out = Sink::<64>::with_canned([hdr, &[], &[], &[], &[], &[], &[], &[]]);
    let r = h.write_to(&mut out);
    assert!(r.is_ok());
    std::mem::forget(r);
    // header line
    let mut p = 0;
    while p < hdr.len() { assert!(out.b[p] == hdr[p]); p += 1; }
    assert!(out.b[p] == b'\n', "header line not terminated");
    p += 1;
    // records
    let (mut io, mut inew) = (0usize, 0usize);
    let mut recs = 0;
    while p < out.n {
        assert!(p + 3 <= out.n, "truncated record");
        let (m, x, nl) = (out.b[p], out.b[p + 1], out.b[p + 2]);
        assert!(nl == b'\n', "record not terminated");
        if m == b'-' { assert!(io < KO && x == lo[io][0], "'-' record is not the next old-side line"); io += 1; }
        else if m == b'+' { assert!(inew < KN && x == ln[inew][0], "'+' record is not the next new-side line"); inew += 1; }
        else if m == b' ' {
            assert!(io < KO && inew < KN && x == lo[io][0] && x == ln[inew][0], "context record for a line that differs between the sides");
            io += 1; inew += 1;
        } else { assert!(false, "unknown record marker"); }
        p += 3;
        recs += 1;
        assert!(recs <= KO + KN, "verif-infra: more records than lines");
    }
    assert!(io == KO && inew == KN, "a line of one side is missing from the written hunk");
    kani::cover!(recs < KO + KN, "a context record was written");
    kani::cover!(recs == KO + KN, "no context record");
    std::mem::forget(h);
}

/// Native fall-back replay for the extreme-number family (c11b): the same headers through the real parse_hunk, same assertions.
#[cfg(test)]
#[test]
fn replay_sweep_numeric() {
    let values: [u128; 12] = [0, 1, 1 << 31, (1 << 62) - 1, 1 << 62, (1 << 63) - 1, 1 << 63, (1 << 63) + 1, (1 << 64) - 1, 1 << 64, 1_000_000_000_000, 100_000_000_000_000_000_000];
    for pos in 0..4 {
        for v in values.iter() {
            let mut f = [1u128; 4];
            f[pos] = *v;
            let text = format!("@@ -{},{} +{},{} @@\n-a\n+b\n", f[0], f[1], f[2], f[3]).into_bytes();
            if let Ok((_rest, h)) = parse_hunk(&text[..]) {
                assert!(h.remove.target_line >= 0 && h.add.target_line >= 0, "negative start line for header {:?}", String::from_utf8_lossy(&text[..40.min(text.len())]));
                assert!(h.remove.target_line <= isize::max_value() / 2 && h.add.target_line <= isize::max_value() / 2,
                        "start line beyond the range placement arithmetic is safe for (isize::MAX / 2): header {:?}", String::from_utf8_lossy(&text[..text.len().min(60)]));
                assert!(h.remove.content.capacity() <= text.len() && h.add.content.capacity() <= text.len(), "allocation out of proportion to the input");
            }
        }
    }
}

/// Native fall-back replay for lemma 1 (used when the solver's trace for a failing instance does not fit in memory): the same
/// construction as t_hunk_text on random edit scripts and bytes (CR, backslash, blank, high bytes among them), real memchr.
#[cfg(test)]
#[test]
fn replay_sweep_hunk_text() {
    let mut seed: u64 = 0x9E3779B97F4A7C15;
    let mut rnd = |n: u64| -> u64 { seed ^= seed << 13; seed ^= seed >> 7; seed ^= seed << 17; seed % n };
    let alphabet = [b'a', b'b', b'\r', b'\\', b' ', b'+', b'-', b'@', 0xFFu8, b'\t'];
    let mut case = 0u64;
    while case < 200_000 {
        case += 1;
        let k = 1 + rnd(5) as usize;
        let mut ops: Vec<u8> = Vec::new();
        let mut lines: Vec<u8> = Vec::new();
        for _ in 0..k { ops.push([b' ', b'-', b'+'][rnd(3) as usize]); lines.push(alphabet[rnd(alphabet.len() as u64) as usize]); }
        let nold = ops.iter().filter(|&&o| o != b'+').count();
        let nnew = ops.iter().filter(|&&o| o != b'-').count();
        let last_old = ops.iter().rposition(|&o| o != b'+');
        let last_new = ops.iter().rposition(|&o| o != b'-');
        let (mut a, mut b) = (rnd(2) == 0 && nold > 0, rnd(2) == 0 && nnew > 0);
        // a line without newline is the last line of its file: a context line can only carry the tag when it ends both sides
        if a && ops[last_old.unwrap()] == b' ' { if last_new == last_old { b = true; } else { a = false; } }
        if b && ops[last_new.unwrap()] == b' ' { if last_new == last_old { a = true; } else { b = false; } }
        let (os, ns) = (1 + rnd(9) as usize, 1 + rnd(9) as usize);
        let mut text: Vec<u8> = format!("@@ -{},{} +{},{} @@\n", os, nold, ns, nnew).into_bytes();
        for i in 0..k {
            text.extend_from_slice(&[ops[i], lines[i], b'\n']);
            let tag = (a && Some(i) == last_old && ops[i] != b'+') || (b && Some(i) == last_new && ops[i] != b'-');
            if tag { text.extend_from_slice(b"\\ No newline at end of file\n"); }
        }
        let shown = String::from_utf8_lossy(&text).into_owned();
        let (rest, h) = match parse_hunk(&text[..]) { Ok(x) => x, Err(_) => panic!("a well-formed hunk was rejected: {:?}", shown) };
        assert!(rest.is_empty(), "hunk text not consumed: {:?}", shown);
        assert!(h.remove.content.len() == nold && h.add.content.len() == nnew, "side lengths: {:?}", shown);
        let (mut io, mut ia) = (0usize, 0usize);
        for i in 0..k {
            if ops[i] != b'+' {
                let nonl = a && Some(i) == last_old;
                let want: &[u8] = if nonl { &lines[i..i + 1] } else { &[lines[i], b'\n'] };
                assert!(h.remove.content[io] == want, "old-side line differs: {:?}", shown);
                io += 1;
            }
            if ops[i] != b'-' {
                let nonl = b && Some(i) == last_new;
                let want: &[u8] = if nonl { &lines[i..i + 1] } else { &[lines[i], b'\n'] };
                assert!(h.add.content[ia] == want, "new-side line differs: {:?}", shown);
                ia += 1;
            }
        }
        let want_old = if nold == 0 { os as isize } else { os as isize - 1 };
        let want_new = if nnew == 0 { ns as isize } else { ns as isize - 1 };
        assert!(h.remove.target_line == want_old && h.add.target_line == want_new, "start lines: {:?}", shown);
        // context counts: leading / trailing runs of context lines (all-context hunks count everything as leading)
        let pre = ops.iter().take_while(|&&o| o == b' ').count();
        let suf = if pre == k { 0 } else { ops.iter().rev().take_while(|&&o| o == b' ').count() };
        assert!(h.prefix_context == pre && h.suffix_context == suf, "context counts {}/{} instead of {}/{}: {:?}", h.prefix_context, h.suffix_context, pre, suf, shown);
    }
}

/// Native replay for Engine-B candidates on the hunk writer: random hunks with up to 90 lines per side over a small alphabet
/// (few or no equal lines, so that the closest-match walk has to look far), written with the real formatter, read back with
/// parse_hunk: same two sequences and start lines; writing the re-parsed hunk gives the same bytes.
#[cfg(test)]
#[test]
fn replay_sweep_writer() {
    let mut seed: u64 = 0x2545F4914F6CDD1D;
    let mut rnd = |n: u64| -> u64 { seed ^= seed << 13; seed ^= seed >> 7; seed ^= seed << 17; seed % n };
    let mut case = 0u64;
    while case < 3000 {
        case += 1;
        let ko = rnd(if case % 3 == 0 { 90 } else { 6 }) as usize;
        let kn = rnd(if case % 3 == 0 { 90 } else { 6 }) as usize;
        if ko + kn == 0 { continue; }
        // disjoint alphabets on most cases (no match at all), shared on the others
        let share = case % 2 == 0;
        let mut lo: Vec<Vec<u8>> = Vec::new();
        let mut ln: Vec<Vec<u8>> = Vec::new();
        for _ in 0..ko { lo.push(vec![b'a' + rnd(3) as u8, b'\n']); }
        for _ in 0..kn { ln.push(vec![(if share { b'a' } else { b'p' }) + rnd(3) as u8, b'\n']); }
        let start = rnd(50) as isize;
        let mut h: TextHunk = Hunk::new(start, start, &b""[..]);
        for l in &lo { h.remove.content.push(&l[..]); }
        for l in &ln { h.add.content.push(&l[..]); }
        let mut out: Vec<u8> = Vec::new();
        h.write_to(&mut out).unwrap();
        let (rest, g) = match parse_hunk(&out[..]) { Ok(x) => x, Err(_) => panic!("written hunk is rejected by the parser (old {} lines, new {} lines)", ko, kn) };
        assert!(rest.is_empty(), "written hunk not consumed (old {} lines, new {} lines)", ko, kn);
        assert!(g.remove.content == h.remove.content, "old side changed by write-then-parse (old {} lines, new {} lines, shared alphabet: {})", ko, kn, share);
        assert!(g.add.content == h.add.content, "new side changed by write-then-parse (old {} lines, new {} lines, shared alphabet: {})", ko, kn, share);
        assert!(g.remove.target_line == h.remove.target_line && g.add.target_line == h.add.target_line, "start lines changed by write-then-parse");
        let mut out2: Vec<u8> = Vec::new();
        g.write_to(&mut out2).unwrap();
        assert!(out2 == out, "writing the re-parsed hunk does not reproduce the written form");
    }
}

/// (iii) file header: parse a concrete patch, write it, parse the written form: same kind, names, rename flag,
/// modes, hashes, hunk count; writing again reproduces the written form.
pub fn t_write_file(text: &[u8]) {
    let p = match parse_patch(text, 0, false) { Ok(p) => p, Err(e) => { std::mem::forget(e); assert!(false, "verif-infra: template rejected"); return; } };
    assert!(p.file_patches.len() == 1);
    let mut out = FmtSink::<400>::new();
    p.file_patches[0].write_to(&mut out).unwrap();
    let q = match parse_patch(out.bytes(), 0, false) { Ok(q) => q, Err(e) => { std::mem::forget(e); assert!(false, "written patch is rejected by the parser"); return; } };
    assert!(q.file_patches.len() == 1, "written patch describes a different number of file patches");
    let (a, b) = (&p.file_patches[0], &q.file_patches[0]);
    assert!(a.kind() == b.kind(), "kind changed");
    assert!(a.is_rename() == b.is_rename(), "rename flag changed");
    assert!(a.old_filename().map(|x| x.as_ref()) == b.old_filename().map(|x| x.as_ref()), "old name changed");
    assert!(a.new_filename().map(|x| x.as_ref()) == b.new_filename().map(|x| x.as_ref()), "new name changed");
    assert!(a.old_permissions() == b.old_permissions(), "old mode changed");
    assert!(a.new_permissions() == b.new_permissions(), "new mode changed");
    assert!(a.old_hash() == b.old_hash() && a.new_hash() == b.new_hash(), "hashes changed");
    assert!(a.hunks().len() == b.hunks().len(), "hunk count changed");
    let mut out2 = FmtSink::<400>::new();
    b.write_to(&mut out2).unwrap();
    assert!(out2.bytes() == out.bytes(), "writing is not a fixed point");
    kani::cover!(true, "file round trip done");
    std::mem::forget(p); std::mem::forget(q);
}

/// C19: the per-file-patch body of parse_patch's loop (parse_filepatch, strip, unsafe_filename) on concrete texts.
/// (parse_patch itself wraps errors into failure::Error, whose drop glue is out of the solver's reach; that parse_patch
/// runs exactly this sequence and returns Err when the check fires is an MIR VC: vc_parse_patch_refuses_unsafe.)
pub fn t_refused(text: &[u8], strip: usize) {
    let mut input = text;
    let mut refused = false;
    let mut n = 0;
    while n < 3 {
        match parse_filepatch(input, false) {
            Ok((rest, (_h, mut fp))) => {
                fp.strip(strip);
                if fp.unsafe_filename().is_some() { refused = true; }
                input = rest;
                std::mem::forget(fp);
            }
            Err(e) => { std::mem::forget(e); break; }
        }
        n += 1;
    }
    assert!(refused, "a file patch with a name that leaves the working tree was accepted");
    kani::cover!(true, "refused");
}
pub fn t_accepted_safe(text: &[u8], strip: usize) {
    use std::path::Component;
    match parse_filepatch(text, false) {
        Ok((rest, (_h, mut fp))) => {
            fp.strip(strip);
            assert!(fp.unsafe_filename().is_none(), "a name made safe by stripping was refused");
            for n in fp.old_filename().iter().chain(fp.new_filename().iter()) {
                for c in n.components() { assert!(c != Component::ParentDir && c != Component::RootDir); }
            }
            std::mem::forget(fp);
        }
        Err(e) => { std::mem::forget(e); assert!(false, "verif-infra: template rejected"); }
    }
}

/// Door for harness modules outside the parser: the private hunk-sequence parser.
pub fn verif_parse_hunks(input: &[u8]) -> Option<(usize, HunksVec<&[u8]>)> {
    match parse_hunks(input) { Ok((rest, h)) => Some((rest.len(), h)), Err(e) => { std::mem::forget(e); None } }
}

pub fn t_twin() {
    let b: [u8; 4] = kani::any();
    if let Ok((rest, _)) = parse_number_usize(&b[..]) { assert!(rest.len() == 4, "twin: reachable"); }
}

include!(concat!(env!("VERIF_GEN"), "/parser_inst.rs"));
