//! Kani harness for the reject writer (C13): write_rej_to emits exactly the failed hunks, in order,
//! with their line content and line numbers; nothing when the report is ok.  Child module of writer.rs.
#![allow(dead_code, unused_imports, unused_variables)]
use super::*;
use crate::patch::verif_h::{Pool, mk_hunk, Shape, mk_report, mk_named_fp};
use crate::patch::unified::parser::verif_h::{verif_parse_hunks, Sink};

/// H one-line-replacement hunks ("-x +y", no context) at stated lines 2, 12, 22, ...; `applied[h]` from the instance;
/// line bytes symbolic.  Pool lines are 1 byte without terminator, so each written line is followed by the
/// "\\ No newline" tag: the parser must give back exactly those bytes.
pub fn rej_case<const H: usize>(applied: [bool; H]) {
    let pool = Pool::any();
    let mut k = 0;
    while k < 2 * H { kani::assume(pool.b[k] != b'\n'); k += 1; }
    // removed and added line of a hunk differ (else the writer would emit one context line): fixes the layout
    k = 0;
    while k < H { kani::assume(pool.b[2 * k] != pool.b[2 * k + 1]); k += 1; }
    let mut hunks: Vec<TextHunk> = Vec::with_capacity(H);
    let mut lines = [0isize; H];
    let mut h = 0;
    while h < H {
        lines[h] = 2 + 10 * h as isize;
        hunks.push(mk_hunk(&pool, 2 * h, Shape { p: 0, r: 1, a: 1, s: 0 }, lines[h], lines[h]));
        h += 1;
    }
    let fp = mk_named_fp("f", hunks);
    let rep = mk_report(&applied, &lines, PatchDirection::Forward);
    // canned write! outputs, in call order: "diff --git f f\n", "--- f\n", "+++ f\n", then one hunk header per failed hunk
    let hdrs: [&'static [u8]; 3] = [b"@@ -3,1 +3,1 @@", b"@@ -13,1 +13,1 @@", b"@@ -23,1 +23,1 @@"];
    let mut out = Sink::<400>::new();
    out.k = 0;
    out.canned = [b"diff --git f f\n", b"--- f\n", b"+++ f\n", &[], &[], &[], &[], &[]];
    let mut nf = 0;
    let mut hh = 0;
    while hh < H { if !applied[hh] { out.canned[3 + nf] = hdrs[hh]; nf += 1; } hh += 1; }
    let wr = fp.write_rej_to(&mut out, &rep);
    assert!(wr.is_ok());
    std::mem::forget(wr);
    let mut nfailed = 0;
    h = 0;
    while h < H { if !applied[h] { nfailed += 1; } h += 1; }
    if nfailed == 0 {
        assert!(out.n == 0, "a reject was written although every hunk applied");
        std::mem::forget(fp); std::mem::forget(rep);
        return;
    }
    let hdr = b"diff --git f f\n--- f\n+++ f\n";
    assert!(out.n > hdr.len(), "reject file too short");
    let mut i = 0;
    while i < hdr.len() { assert!(out.b[i] == hdr[i], "reject file header"); i += 1; }
    let (left, parsed) = match verif_parse_hunks(&out.b[hdr.len()..out.n]) { Some(x) => x, None => { assert!(false, "reject file does not parse"); return; } };
    assert!(left == 0, "trailing bytes in the reject file");
    assert!(parsed.len() == nfailed, "reject file does not hold exactly the failed hunks");
    let mut j = 0;
    h = 0;
    while h < H {
        if !applied[h] {
            let g = &parsed[j];
            let o = &fp.hunks()[h];
            assert!(g.remove.target_line == o.remove.target_line && g.add.target_line == o.add.target_line, "line numbers of a rejected hunk changed");
            assert!(g.remove.content.len() == 1 && g.add.content.len() == 1, "rejected hunk changed shape");
            assert!(g.remove.content[0] == o.remove.content[0] && g.add.content[0] == o.add.content[0], "line content of a rejected hunk changed");
            j += 1;
        }
        h += 1;
    }
    kani::cover!(true, "reject round trip done");
    std::mem::forget(fp); std::mem::forget(rep); std::mem::forget(parsed);
}

include!(concat!(env!("VERIF_GEN"), "/rej_inst.rs"));
