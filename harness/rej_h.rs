//! Kani harness for the reject writer (C13): write_rej_to emits exactly the failed hunks, in order,
//! with their line content and line numbers; nothing when the report is ok.  Child module of writer.rs.
#![allow(dead_code, unused_imports, unused_variables)]
use super::*;
use crate::patch::verif_h::{Pool, mk_hunk, Shape, mk_report, mk_named_fp};
use crate::patch::unified::parser::verif_h::Sink;
use std::borrow::Cow;
use std::path::Path;
use crate::patch::{FilePatch, FilePatchKind, TextFilePatch};

/// H one-line-replacement hunks ("-x +y", no context) at stated lines 2, 12, 22, ...; `applied[h]` from the instance; line
/// bytes symbolic (2-byte lines: letter + newline).  No parser is involved (reading a buffer of symbolic layout back through
/// the nom parser does not finish): the written bytes are scanned as records.  Expected: nothing at all when every hunk
/// applied; otherwise the file header, then for each FAILED hunk, in order: its header line (canned text: formatting is not
/// executed, the numbers are C12's subject), then its lines as records `-x` `+y` (or one ` x` record when x == y).
/// `distinct`: assume x != y per hunk (fixes the layout; the instance without it has one hunk).
pub fn rej_case<const H: usize>(applied: [bool; H], distinct: bool) {
    let raw: [[u8; 2]; H] = kani::any();
    let mut lo = [[0u8; 2]; H];
    let mut ln = [[0u8; 2]; H];
    let mut k = 0;
    while k < H {
        kani::assume(raw[k][0] != b'\n' && raw[k][1] != b'\n');
        if distinct { kani::assume(raw[k][0] != raw[k][1]); }
        lo[k] = [raw[k][0], b'\n'];
        ln[k] = [raw[k][1], b'\n'];
        k += 1;
    }
    // flat buffer for the slices handed to the hunks (nested arrays are mis-read by CBMC 6.11 through slice pointers, see parser_h.rs)
    let mut flat = [b'\n'; 12];
    assert!(H <= 3, "verif-infra: at most 3 hunks");
    k = 0;
    while k < H { flat[4 * k] = lo[k][0]; flat[4 * k + 2] = ln[k][0]; k += 1; }
    let mut hunks: Vec<TextHunk> = Vec::with_capacity(H);
    let mut lines = [0isize; H];
    let mut h = 0;
    while h < H {
        lines[h] = 2 + 10 * h as isize;
        let mut hk: TextHunk = Hunk::new(lines[h], lines[h], &b""[..]);
        hk.remove.content.push(&flat[4 * h..4 * h + 2]);
        hk.add.content.push(&flat[4 * h + 2..4 * h + 4]);
        hunks.push(hk);
        h += 1;
    }
    let fp = mk_named_fp("f", hunks);
    let rep = mk_report(&applied, &lines, PatchDirection::Forward);
    // canned write! outputs, in call order: "diff --git f f\n", "--- f\n", "+++ f\n", then one hunk header per failed hunk
    let hdrs: [&'static [u8]; 3] = [b"@@ -3,1 +3,1 @@", b"@@ -13,1 +13,1 @@", b"@@ -23,1 +23,1 @@"];
    let mut out = Sink::<160>::with_canned([b"diff --git f f\n", b"--- f\n", b"+++ f\n", &[], &[], &[], &[], &[]]);
    let mut nf = 0;
    let mut hh = 0;
    while hh < H { if !applied[hh] { out.canned[3 + nf] = hdrs[hh]; nf += 1; } hh += 1; }
    let wr = fp.write_rej_to(&mut out, &rep);
    assert!(wr.is_ok());
    std::mem::forget(wr);
    if nf == 0 {
        assert!(out.n == 0, "a reject was written although every hunk applied");
        std::mem::forget(fp); std::mem::forget(rep);
        return;
    }
    let hdr = b"diff --git f f\n--- f\n+++ f\n";
    assert!(out.n > hdr.len(), "reject file too short");
    let mut p = 0;
    while p < hdr.len() { assert!(out.b[p] == hdr[p], "reject file header"); p += 1; }
    h = 0;
    while h < H {
        if !applied[h] {
            let hd = hdrs[h];
            assert!(p + hd.len() + 1 <= out.n, "a failed hunk is missing from the reject file");
            let mut q = 0;
            while q < hd.len() { assert!(out.b[p + q] == hd[q], "hunk header of a rejected hunk"); q += 1; }
            assert!(out.b[p + q] == b'\n', "hunk header line not terminated");
            p += hd.len() + 1;
            assert!(p + 3 <= out.n, "rejected hunk has no lines");
            if out.b[p] == b' ' {
                assert!(lo[h][0] == ln[h][0] && out.b[p + 1] == lo[h][0] && out.b[p + 2] == b'\n', "line content of a rejected hunk changed");
                p += 3;
            } else {
                assert!(p + 6 <= out.n, "rejected hunk is short of a line");
                assert!(out.b[p] == b'-' && out.b[p + 1] == lo[h][0] && out.b[p + 2] == b'\n', "old-side line of a rejected hunk changed");
                assert!(out.b[p + 3] == b'+' && out.b[p + 4] == ln[h][0] && out.b[p + 5] == b'\n', "new-side line of a rejected hunk changed");
                p += 6;
            }
        }
        h += 1;
    }
    assert!(p == out.n, "the reject file holds more than the failed hunks");
    kani::cover!(true, "reject scan done");
    std::mem::forget(fp); std::mem::forget(rep);
}

/// C12 (iii), without parse_patch: the header lines the writer emits for a file patch built directly (concrete kind, rename flag,
/// modes, hashes; names "f" / "g"), through the REAL formatter, are each accepted by the parser's own line parsers and say
/// what the file patch says: the names, rename from/to, a line setting the old mode and one setting the new mode to the same
/// values, the hashes, and /dev/null on the absent side.
/// kind: 0 modify, 1 create, 2 delete.
pub fn file_header_case(kind: u8, rename: bool, old_mode: Option<u32>, new_mode: Option<u32>, hashes: bool) {
    use crate::patch::unified::parser::verif_h::{FmtSink, verif_classify_line};
    use std::os::unix::fs::PermissionsExt;
    let k = match kind { 1 => FilePatchKind::Create, 2 => FilePatchKind::Delete, _ => FilePatchKind::Modify };
    let of: Cow<Path> = Cow::Borrowed(Path::new("f"));
    let nf: Cow<Path> = Cow::Borrowed(Path::new(if rename { "g" } else { "f" }));
    let fp: TextFilePatch = FilePatch { kind: k, old_filename: if kind == 1 { None } else { Some(of) }, new_filename: if kind == 2 { None } else { Some(nf) }, is_rename: rename,
        old_permissions: old_mode.map(std::fs::Permissions::from_mode), new_permissions: new_mode.map(std::fs::Permissions::from_mode),
        old_hash: if hashes { Some(&b"1234567"[..]) } else { None }, new_hash: if hashes { Some(&b"89abcde"[..]) } else { None }, hunks: Vec::new() };
    let mut out = FmtSink::<200>::new();
    let r = write_file_patch_header_to(&fp, &mut out);
    assert!(r.is_ok());
    std::mem::forget(r);
    let b = out.bytes();
    // walk the lines
    let (mut seen_sep, mut seen_from, mut seen_to, mut seen_old, mut seen_new, mut seen_idx, mut seen_minus, mut seen_plus) = (false, false, false, false, false, false, false, false);
    let mut p = 0;
    let mut nlines = 0;
    while p < b.len() {
        let (code, val, rest) = verif_classify_line(&b[p..]);
        assert!(code != 100, "a header line the writer emits is rejected by the parser");
        assert!(rest < b.len() - p, "verif-infra: no progress");
        match code {
            7 => { assert!(!seen_sep && val == b'f' as u32, "diff --git line"); seen_sep = true; }
            4 => { assert!(rename, "rename from without a rename"); seen_from = true; }
            5 => { assert!(rename, "rename to without a rename"); seen_to = true; }
            0 | 2 => { assert!(old_mode == Some(val), "the old mode changed by write-then-parse"); seen_old = true; }
            1 | 3 => { assert!(new_mode == Some(val), "the new mode changed by write-then-parse"); seen_new = true; }
            6 => { assert!(hashes && val == 707, "index line"); seen_idx = true; }
            8 => { assert!(val == if kind == 1 { 0 } else { b'f' as u32 }, "--- line names the wrong file"); seen_minus = true; }
            9 => { assert!(val == if kind == 2 { 0 } else if rename { b'g' as u32 } else { b'f' as u32 }, "+++ line names the wrong file"); seen_plus = true; }
            _ => { assert!(false, "unexpected metadata line"); }
        }
        p = b.len() - rest;
        nlines += 1;
        assert!(nlines <= 9, "verif-infra: more lines than a header has");
    }
    assert!(seen_sep && seen_minus && seen_plus, "separator or name lines missing");
    assert!(seen_from == rename && seen_to == rename, "rename lines");
    assert!(seen_old == old_mode.is_some() && seen_new == new_mode.is_some(), "a mode of the file patch is not written");
    assert!(seen_idx == hashes, "hashes not written");
    kani::cover!(true, "header scanned");
    std::mem::forget(fp);
}

include!(concat!(env!("VERIF_GEN"), "/rej_inst.rs"));
