//! Harness families that call *private* items of src/libpatch/patch/mod.rs directly
//! (try_apply_hunk, HunkView's fuzz fields).  Kept apart from patch_h.rs so that a change of
//! those private signatures only makes C02's direct checks inconclusive, not every apply family.
#![allow(dead_code, unused_imports, unused_variables)]

use super::*;
use super::verif_h::*;
use crate::modified_file::ModifiedFile;

#[inline(always)]
fn b0(l: &[u8]) -> u8 { l[0] }

// ------------------------------------------------------------------------------------------
// C02c: HunkView::new fuzz arithmetic, every 64-bit prefix/suffix/fuzz.  Loop-free.
// ------------------------------------------------------------------------------------------
pub fn c02c(dir: PatchDirection) {
    let p: usize = kani::any();
    let s: usize = kani::any();
    let k: usize = kani::any();
    let mut h: TextHunk = Hunk::new(0, 0, &b""[..]);
    h.prefix_context = p;
    h.suffix_context = s;
    let v = HunkView::new(&h, dir, k);
    let (pf, sf) = (v.prefix_fuzz, v.suffix_fuzz);
    // never more than the fuzz level, never more than the side's own context (never a changed line)
    assert!(pf <= k && sf <= k);
    assert!(pf <= p && sf <= s);
    // documented rule: remaining = max(p,s) - fuzz (saturating); each side trimmed down to it
    let m = if p > s { p } else { s };
    let remaining = if m > k { m - k } else { 0 };
    let want_p = if p < remaining { p } else { remaining };
    let want_s = if s < remaining { s } else { remaining };
    assert!(p - pf == want_p);
    assert!(s - sf == want_s);
    assert!(v.prefix_context() == want_p && v.suffix_context() == want_s);
    // the longer side is the one trimmed first: the shorter side loses a line only once both are equal
    if p < s { assert!(pf <= sf); }
    if p > s { assert!(sf <= pf); }
    // fuzz 0 trims nothing
    if k == 0 { assert!(pf == 0 && sf == 0); }
    // max_useable_fuzz: beyond it nothing more is trimmed
    if k >= h.max_useable_fuzz() { assert!(pf == p && sf == s); }
    kani::cover!(pf > 0 && sf == 0, "asymmetric trim");
    kani::cover!(pf > 0 && sf > 0 && pf != sf, "both trimmed, unequal");
}

// ------------------------------------------------------------------------------------------
// C02a: try_apply_hunk (one call, Normal mode) against a reference written from the property.
// Concrete: N file lines, shape, fuzz level k, direction.  Symbolic: every line byte, both
// stated lines, previous offset, frozen line.  Real std Vec (no mutation happens).
// ------------------------------------------------------------------------------------------
pub fn c02a<const N: usize>(sh: Shape, k: usize, dir: PatchDirection) {
    let pool = Pool::any();
    let file = mk_file(&pool, 0, N);
    let rm_line: isize = kani::any();
    let add_line: isize = kani::any();
    kani::assume(rm_line >= 0 && rm_line <= N as isize + 1);
    kani::assume(add_line >= 0 && add_line <= N as isize + 1);
    // stated well-formedness: both start lines zero or both non-zero (position() reads one,
    // the search the other; the property does not say which governs)
    kani::assume((rm_line == 0) == (add_line == 0));
    let hunk = mk_hunk(&pool, N, sh, rm_line, add_line);
    let off: isize = kani::any();
    kani::assume(off >= -2 && off <= 2);
    let frozen: isize = kani::any();
    kani::assume(frozen >= -1 && frozen <= N as isize);

    let view = hunk.view(dir, k);
    let rep = try_apply_hunk(&view, 0, &file, ApplyMode::Normal, off, frozen);

    // ---- reference, from the property text
    let (old_full, stated, other_stated) = match dir {
        PatchDirection::Forward => (&hunk.remove.content, rm_line, add_line),
        PatchDirection::Revert => (&hunk.add.content, add_line, rm_line),
    };
    let pf = view.prefix_fuzz;
    let sf = view.suffix_fuzz;
    assert!(pf <= k && sf <= k && pf <= sh.p && sf <= sh.s); // at most k context lines per end, never a changed line
    let old = &old_full[pf..old_full.len() - sf];
    let p1 = sh.p - pf;
    let s1 = sh.s - sf;
    let pos: u8 = if p1 < s1 && other_stated == 0 { 0 } else if p1 > s1 { 1 } else { 2 };
    let r = ref_place(&file.content, old, pos, stated, stated + off);

    match rep {
        HunkApplyReport::Applied { line, offset, fuzz, rollback_line, line_count_diff } => {
            assert!(r.any_candidate, "applied although no admissible position matches");
            assert!(line == r.chosen, "not the nearest admissible match");
            assert!(offset == line - stated, "offset is not line - stated line");
            assert!(fuzz == k);
            // what the splice loop adds up to shift later hunks: lines of the side that goes in minus lines of the side that is
            // matched, for the direction the hunk is applied in (sh.a / sh.r added / removed lines; context cancels out)
            let want_diff = match dir {
                PatchDirection::Forward => sh.a as isize - sh.r as isize,
                PatchDirection::Revert => sh.r as isize - sh.a as isize,
            };
            assert!(line_count_diff == want_diff, "reported line-count difference has the wrong value or sign for this direction");
            // never over lines an earlier hunk froze: first changed line behind the previous hunk's changed
            // lines, own context not over them either
            assert!(line + p1 as isize > frozen);
            assert!(line >= frozen);
            kani::cover!(offset > 0, "applied at positive offset");
            kani::cover!(offset < 0, "applied at negative offset");
            kani::cover!(offset == 0, "applied at stated line");
        }
        HunkApplyReport::Failed(HunkApplyFailureReason::NoMatchingLines) => {
            assert!(!r.any_candidate, "reported no match although an admissible position matches");
            kani::cover!(true, "failed: no match");
        }
        HunkApplyReport::Failed(HunkApplyFailureReason::MisorderedHunks) => {
            assert!(r.any_candidate);
            assert!(r.chosen + p1 as isize <= frozen || r.chosen < frozen,
                    "reported misordered although the nearest match interferes with no earlier hunk");
            kani::cover!(true, "failed: misordered");
        }
        _ => { assert!(false, "unexpected report"); }
    }
    std::mem::forget(file);
    std::mem::forget(hunk);
}

/// Vacuity twin for the C02a construction: must come back violated.
/// C11c / C02: placement terminates within a bound that depends on the file only, whatever line number the hunk
/// states (any value the parser can deliver: 0 ..= isize::MAX/2), and the result obeys the same oracle.
pub fn place_any_line<const N: usize>(sh: Shape) {
    let pool = Pool::any();
    let file = mk_file(&pool, 0, N);
    let line: isize = kani::any();
    kani::assume(line >= 0 && line <= isize::max_value() / 2);
    let hunk = mk_hunk(&pool, N, sh, line, line);
    let off: isize = kani::any();
    kani::assume(off >= -(N as isize) && off <= N as isize);
    let view = hunk.view(PatchDirection::Forward, 0);
    let rep = try_apply_hunk(&view, 0, &file, ApplyMode::Normal, off, -1);
    let old = &hunk.remove.content[..];
    let pos: u8 = if sh.p < sh.s && line == 0 { 0 } else if sh.p > sh.s { 1 } else { 2 };
    let r = ref_place(&file.content, old, pos, line, line + off);
    match rep {
        HunkApplyReport::Applied { line: l, offset, .. } => { assert!(r.any_candidate && l == r.chosen && offset == l - line); }
        HunkApplyReport::Failed(HunkApplyFailureReason::NoMatchingLines) => { assert!(!r.any_candidate); }
        _ => { assert!(false, "unexpected report"); }
    }
    kani::cover!(line > 1000000, "stated line far behind the end of the file");
    std::mem::forget(file); std::mem::forget(hunk);
}

pub fn c02a_twin() {
    let pool = Pool::any();
    let file = mk_file(&pool, 0, 3);
    let line: isize = kani::any();
    kani::assume(line >= 0 && line <= 4);
    let hunk = mk_hunk(&pool, 3, Shape { p: 1, r: 1, a: 1, s: 0 }, line, line);
    let view = hunk.view(PatchDirection::Forward, 0);
    let rep = try_apply_hunk(&view, 0, &file, ApplyMode::Normal, 0, -1);
    if let HunkApplyReport::Applied { .. } = rep { assert!(false, "twin: reachable"); }
}


include!(concat!(env!("VERIF_GEN"), "/patchpriv_inst.rs"));
