//! Shared harness helpers (overlay only, cfg(kani)).

/// Stub for `core::str::from_utf8`, registered with `#[kani::stub]`.  Both call sites in the
/// parser pass strings of ASCII digits; the stub *asserts* that, so a call site that stops
/// guaranteeing it is reported (as a stub-precondition failure = inconclusive), not hidden.
pub fn ascii_from_utf8(v: &[u8]) -> Result<&str, std::str::Utf8Error> {
    let mut i = 0;
    while i < v.len() {
        assert!(v[i] < 0x80, "from_utf8 stub: non-ASCII input");
        i += 1;
    }
    Ok(unsafe { std::str::from_utf8_unchecked(v) })
}

/// Stub for `alloc::fmt::format`: error paths that only build a message.
pub fn empty_format(_args: std::fmt::Arguments<'_>) -> String { String::new() }

/// Stub for `String::from_utf8_lossy` in error-message construction (output formatting is not the subject).
pub fn lossy_stub(v: &[u8]) -> std::borrow::Cow<'_, str> { std::borrow::Cow::Borrowed("") }
