//! Kani harness for src/libpatch/util/lines_with_endings.rs (C01: line splitting keeps terminators).
#![allow(dead_code, unused_imports, unused_variables)]
use super::*;

/// Pieces concatenate to the input; every piece but the last ends in '\n'; no piece is empty;
/// no piece contains '\n' anywhere but at its end.
pub fn split_lines<const L: usize>(len: usize) {
    let buf: [u8; L] = kani::any();
    let input = &buf[..len];
    let mut it = split_lines_with_endings(input);
    let mut pos = 0usize;
    let mut n = 0usize;
    let mut prev_had_nl = true;
    while let Some(piece) = it.next() {
        assert!(!piece.is_empty(), "empty piece");
        assert!(prev_had_nl, "a piece without terminator was not the last one");
        assert!(piece.as_ptr() as usize == input.as_ptr() as usize + pos, "pieces are not contiguous");
        let mut i = 0;
        while i + 1 < piece.len() { assert!(piece[i] != b'\n', "terminator inside a piece"); i += 1; }
        prev_had_nl = piece[piece.len() - 1] == b'\n';
        pos += piece.len();
        n += 1;
        assert!(n <= L, "verif-infra: more pieces than bytes");
    }
    assert!(pos == input.len(), "pieces do not cover the input");
    kani::cover!(n >= 2 && !prev_had_nl, "several lines, last without terminator");
}

include!(concat!(env!("VERIF_GEN"), "/lines_inst.rs"));
