//! Verification stub: backtrace capture is irrelevant to every property checked.
//! (The real crate does not compile under Kani's `std` macro overrides.)
#[derive(Clone, Debug, Default)]
pub struct Backtrace;
impl Backtrace {
    pub fn new() -> Self { Backtrace }
    pub fn new_unresolved() -> Self { Backtrace }
    pub fn resolve(&mut self) {}
}
