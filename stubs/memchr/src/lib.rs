//! Verification stand-in for the `memchr` crate: same API subset the repository
//! uses (`memchr`, `memchr_iter`, `Memchr`), implemented as plain byte loops.
//! The real crate dispatches through CPUID inline asm, which Kani cannot encode.
pub fn memchr(needle: u8, haystack: &[u8]) -> Option<usize> {
    let mut i = 0;
    while i < haystack.len() {
        if haystack[i] == needle { return Some(i); }
        i += 1;
    }
    None
}
pub struct Memchr<'h> { needle: u8, haystack: &'h [u8], pos: usize }
pub fn memchr_iter<'h>(needle: u8, haystack: &'h [u8]) -> Memchr<'h> {
    Memchr { needle, haystack, pos: 0 }
}
impl<'h> Iterator for Memchr<'h> {
    type Item = usize;
    fn next(&mut self) -> Option<usize> {
        while self.pos < self.haystack.len() {
            let i = self.pos;
            self.pos += 1;
            if self.haystack[i] == self.needle { return Some(i); }
        }
        None
    }
}
